package main

var c03MutantsMore3 = func() []mutant {
	const f = "route/table.go"
	return []mutant{
		{Name: "benign: normaliser inlined into the no-glob matcher (no helper, no closure)", File: f,
			Old: "\thost := normalizeHost(req.Host, req.TLS != nil)\n\n\tfor pattern := range t {\n\t\tnormpat := normalizeHost(pattern, req.TLS != nil)\n",
			New: `	host := strings.ToLower(req.Host)
	if req.TLS == nil && strings.HasSuffix(host, ":80") {
		host = host[:len(host)-len(":80")]
	} else if req.TLS != nil && strings.HasSuffix(host, ":443") {
		host = host[:len(host)-len(":443")]
	}

	for pattern := range t {
		normpat := strings.ToLower(pattern)
		if req.TLS == nil && strings.HasSuffix(normpat, ":80") {
			normpat = strings.TrimSuffix(normpat, ":80")
		} else if req.TLS != nil && strings.HasSuffix(normpat, ":443") {
			normpat = strings.TrimSuffix(normpat, ":443")
		}
`},
		{Name: "benign: lookup inlined into Lookup and LookupHost", File: f,
			Old: c03srcLookupInner, New: "",
			More: []repl{
				{"\t\tif target = t.lookup(h, req.URL.Path, trace, pick, match); target != nil {",
					"\t\ttarget = nil\n\t\tfor _, r := range t[h] {\n\t\t\tif !match(req.URL.Path, r) {\n\t\t\t\tcontinue\n\t\t\t}\n\t\t\tswitch len(r.Targets) {\n\t\t\tcase 0:\n\t\t\tcase 1:\n\t\t\t\ttarget = r.Targets[0]\n\t\t\tdefault:\n\t\t\t\ttarget = pick(r)\n\t\t\t}\n\t\t\tbreak\n\t\t}\n\t\tif target != nil {"},
				{"\treturn t.lookup(host, \"/\", \"\", pick, prefixMatcher)",
					"\tfor _, r := range t[strings.ToLower(host)] {\n\t\tif !prefixMatcher(\"/\", r) {\n\t\t\tcontinue\n\t\t}\n\t\tswitch len(r.Targets) {\n\t\tcase 0:\n\t\t\treturn nil\n\t\tcase 1:\n\t\t\treturn r.Targets[0]\n\t\t}\n\t\treturn pick(r)\n\t}\n\treturn nil"},
			}},
		{Name: "benign: string reversal inlined into the sorter", File: f,
			Old: "\tfor i, h := range hosts {\n\t\thosts[i] = ReverseHostPort(h)\n\t}\n\tsort.Sort(sort.Reverse(sort.StringSlice(hosts)))\n\tfor i, h := range hosts {\n\t\thosts[i] = ReverseHostPort(h)\n\t}\n\treturn hosts",
			New: `	flip := func() {
		for i, s := range hosts {
			h, p, _ := net.SplitHostPort(s)
			if h == "" {
				h = s
			}
			r := []rune(h)
			for a, b := 0, len(r)-1; a < b; a, b = a+1, b-1 {
				r[a], r[b] = r[b], r[a]
			}
			if p == "" {
				hosts[i] = string(r)
			} else {
				hosts[i] = net.JoinHostPort(string(r), p)
			}
		}
	}
	flip()
	sort.Sort(sort.Reverse(sort.StringSlice(hosts)))
	flip()
	return hosts`},
		{Name: "benign: list of keys to try built in a preallocated slice", File: f,
			Old: "\thosts = append(hosts, \"\")\n\tfor _, h := range hosts {", New: "\ttry := make([]string, 0, len(hosts)+1)\n\ttry = append(try, hosts...)\n\ttry = append(try, \"\")\n\tfor _, h := range try {"},
		{Name: "benign: table-driven command dispatch in both constructors", File: f, All: true,
			Old: "\t\tswitch d.Cmd {\n\t\tcase RouteAddCmd:\n\t\t\terr = t.addRoute(d)\n\t\tcase RouteDelCmd:\n\t\t\terr = t.delRoute(d)\n\t\tcase RouteWeightCmd:\n\t\t\terr = t.weighRoute(d)\n\t\tdefault:\n\t\t\terr = fmt.Errorf(\"route: invalid command: %s\", d.Cmd)\n\t\t}\n",
			New: "\t\tif apply, ok := appliers[d.Cmd]; ok {\n\t\t\terr = apply(t, d)\n\t\t} else {\n\t\t\terr = fmt.Errorf(\"route: invalid command: %s\", d.Cmd)\n\t\t}\n",
			More: []repl{
				{"\t\tswitch d.Cmd {\n\t\tcase RouteAddCmd:\n\t\t\terr = t.addRoute(&d)\n\t\tcase RouteDelCmd:\n\t\t\terr = t.delRoute(&d)\n\t\tcase RouteWeightCmd:\n\t\t\terr = t.weighRoute(&d)\n\t\tdefault:\n\t\t\terr = fmt.Errorf(\"route: invalid command: %s\", d.Cmd)\n\t\t}\n",
					"\t\tif apply, ok := appliers[d.Cmd]; ok {\n\t\t\terr = apply(t, &d)\n\t\t} else {\n\t\t\terr = fmt.Errorf(\"route: invalid command: %s\", d.Cmd)\n\t\t}\n"},
				{"func NewTable(b *bytes.Buffer)", "var appliers = map[Cmd]func(Table, *RouteDef) error{\n\tRouteAddCmd:    Table.addRoute,\n\tRouteDelCmd:    Table.delRoute,\n\tRouteWeightCmd: Table.weighRoute,\n}\n\nfunc NewTable(b *bytes.Buffer)"},
			}},
		{Name: "benign: glob match of one key extracted into an exported method named like the interface method", File: f,
			Old:  "\t\tnormpat := normalizeHost(pattern, req.TLS != nil)\n\n\t\t// Issue 548\n\t\t//\n\t\t//Get Compiled Glob from LRU cache\n\t\tg, err := globCache.Get(normpat)\n\t\tif err != nil {\n\t\t\t// a pattern which does not compile cannot match\n\t\t\tlog.Print(\"[ERROR] Compiling glob - \", err)\n\t\t\tcontinue\n\t\t}\n\n\t\tif g.Match(host) {\n\t\t\thosts = append(hosts, pattern)\n\t\t}\n",
			New:  "\t\tif globCache.Match(pattern, host, req.TLS != nil) {\n\t\t\thosts = append(hosts, pattern)\n\t\t}\n",
			More: []repl{{"func sortHostsReverseHostPort(", "func (c *GlobCache) Match(pattern, host string, isTLS bool) bool {\n\tg, err := c.Get(normalizeHost(pattern, isTLS))\n\tif err != nil {\n\t\tlog.Print(\"[ERROR] Compiling glob - \", err)\n\t\treturn false\n\t}\n\treturn g.Match(host)\n}\n\nfunc sortHostsReverseHostPort("}}},
		{Name: "benign: target selection of lookup extracted, matcher verdict in a local", File: f,
			Old:  "\t\tif match(path, r) {\n\t\t\tn := len(r.Targets)\n\t\t\tif n == 0 {\n\t\t\t\treturn nil\n\t\t\t}\n\n\t\t\tvar target *Target\n\t\t\tif n == 1 {\n\t\t\t\ttarget = r.Targets[0]\n\t\t\t} else {\n\t\t\t\ttarget = pick(r)\n\t\t\t}\n",
			New:  "\t\tmatched := match(path, r)\n\t\tif matched {\n\t\t\ttarget := chooseTarget(r, pick)\n\t\t\tif target == nil {\n\t\t\t\treturn nil\n\t\t\t}\n",
			More: []repl{{"func (t Table) config(", "func chooseTarget(r *Route, pick picker) *Target {\n\tswitch len(r.Targets) {\n\tcase 0:\n\t\treturn nil\n\tcase 1:\n\t\treturn r.Targets[0]\n\t}\n\treturn pick(r)\n}\n\nfunc (t Table) config("}}},
		{Name: "benign: normalizeHost and its helper renamed, tls flag computed once", File: f, All: true,
			Old: "normalizeHost(", New: "canonHost(",
			More: []repl{{"func normalizeHostNoLower(", "func stripDefaultPort("}, {"strings.ToLower(normalizeHostNoLower(host, tls))", "strings.ToLower(stripDefaultPort(host, tls))"}}},

		{Name: "benign: body of the route scan extracted into a helper that reports the verdict", File: f,
			Old: c03srcLookupInner, New: `func (t Table) lookup(host, path, trace string, pick picker, match matcher) *Target {
	for _, r := range t[strings.ToLower(host)] {
		if target, ok := tryRoute(r, path, trace, pick, match); ok {
			return target
		}
	}
	return nil
}

func tryRoute(r *Route, path, trace string, pick picker, match matcher) (*Target, bool) {
	if !match(path, r) {
		if trace != "" {
			log.Printf("[TRACE] %s No match %s%s", trace, r.Host, r.Path)
		}
		return nil, false
	}
	n := len(r.Targets)
	if n == 0 {
		return nil, true
	}
	var target *Target
	if n == 1 {
		target = r.Targets[0]
	} else {
		target = pick(r)
	}
	if trace != "" {
		log.Printf("[TRACE] %s Match %s%s", trace, r.Host, r.Path)
	}
	return target, true
}
`},
		{Name: "benign: scan leaves the loop by break and picks the target afterwards", File: f,
			Old: c03srcLookupInner, New: `func (t Table) lookup(host, path, trace string, pick picker, match matcher) *Target {
	var hit *Route
	for _, r := range t[strings.ToLower(host)] {
		if match(path, r) {
			hit = r
			break
		}
		if trace != "" {
			log.Printf("[TRACE] %s No match %s%s", trace, r.Host, r.Path)
		}
	}
	if hit == nil || len(hit.Targets) == 0 {
		return nil
	}
	if trace != "" {
		log.Printf("[TRACE] %s Match %s%s", trace, hit.Host, hit.Path)
	}
	if len(hit.Targets) == 1 {
		return hit.Targets[0]
	}
	return pick(hit)
}
`},

		{Name: "benign: host-less routes as an explicit fallback after the loop over the matched hosts", File: f,
			Old: "\thosts = append(hosts, \"\")\n\tfor _, h := range hosts {", New: "\tfor _, h := range hosts {",
			More: []repl{{"\t\t\tbreak\n\t\t}\n\t}\n\n\tif target != nil && trace != \"\" {", "\t\t\tbreak\n\t\t}\n\t}\n\tif target == nil {\n\t\ttarget = t.lookup(\"\", req.URL.Path, trace, pick, match)\n\t}\n\n\tif target != nil && trace != \"\" {"}}},

		{Name: "benign: config collects the host keys with the slices/maps packages", File: f,
			Old:  "\tvar hosts []string\n\tfor host := range t {\n\t\tif host != \"\" {\n\t\t\thosts = append(hosts, host)\n\t\t}\n\t}\n\tsort.Sort(sort.Reverse(sort.StringSlice(hosts)))\n",
			New:  "\thosts := slices.DeleteFunc(slices.Sorted(maps.Keys(t)), func(h string) bool { return h == \"\" })\n\tslices.Reverse(hosts)\n",
			More: []repl{{"\t\"net/url\"\n\t\"sort\"\n", "\t\"maps\"\n\t\"net/url\"\n\t\"slices\"\n\t\"sort\"\n"}}},

		{Name: "benign: sort-all loop over the sorted key list", File: f, All: true,
			Old: "\tfor _, h := range t {\n\t\tsort.Sort(h)\n\t}\n", New: "\tfor _, host := range slices.Sorted(maps.Keys(t)) {\n\t\tsort.Sort(t[host])\n\t}\n",
			More: []repl{{"\t\"net/url\"\n\t\"sort\"\n", "\t\"maps\"\n\t\"net/url\"\n\t\"slices\"\n\t\"sort\"\n"}}},
		{Name: "benign: specificity sort by a comparator that reverses its operands", File: f,
			Old:  "\tfor i, h := range hosts {\n\t\thosts[i] = ReverseHostPort(h)\n\t}\n\tsort.Sort(sort.Reverse(sort.StringSlice(hosts)))\n\tfor i, h := range hosts {\n\t\thosts[i] = ReverseHostPort(h)\n\t}\n\treturn hosts",
			New:  "\tslices.SortFunc(hosts, func(a, b string) int { return strings.Compare(ReverseHostPort(b), ReverseHostPort(a)) })\n\treturn hosts",
			More: []repl{{"\t\"net/url\"\n\t\"sort\"\n", "\t\"net/url\"\n\t\"slices\"\n\t\"sort\"\n"}}},
		{Name: "benign: pointer receiver on the unexported lookup", File: f,
			Old: "func (t Table) lookup(", New: "func (t *Table) lookup(",
			More: []repl{{"\tfor _, r := range t[host] {\n\t\tif match(path, r) {", "\tfor _, r := range (*t)[host] {\n\t\tif match(path, r) {"}}},
		{Name: "benign: matcher kept in a struct field of a small lookup context", File: f,
			Old: c03srcLookupInner, New: `type routeScan struct {
	path, trace string
	pick        picker
	match       matcher
}

func (t Table) lookup(host, path, trace string, pick picker, match matcher) *Target {
	s := routeScan{path: path, trace: trace, pick: pick, match: match}
	return s.first(t[strings.ToLower(host)])
}

func (s *routeScan) first(routes Routes) *Target {
	for _, r := range routes {
		if !s.match(s.path, r) {
			continue
		}
		switch len(r.Targets) {
		case 0:
			return nil
		case 1:
			return r.Targets[0]
		}
		return s.pick(r)
	}
	return nil
}
`},

		// ---- breaks on these shapes
		{Name: "comparator reverses its operands but sorts ascending", File: f,
			Old:  "\tfor i, h := range hosts {\n\t\thosts[i] = ReverseHostPort(h)\n\t}\n\tsort.Sort(sort.Reverse(sort.StringSlice(hosts)))\n\tfor i, h := range hosts {\n\t\thosts[i] = ReverseHostPort(h)\n\t}\n\treturn hosts",
			New:  "\tslices.SortFunc(hosts, func(a, b string) int { return strings.Compare(ReverseHostPort(a), ReverseHostPort(b)) })\n\treturn hosts",
			More: []repl{{"\t\"net/url\"\n\t\"sort\"\n", "\t\"net/url\"\n\t\"slices\"\n\t\"sort\"\n"}}, Expect: "C03.O2"},
		{Name: "explicit host-less fallback tried before the matched hosts", File: f,
			Old: "\thosts = append(hosts, \"\")\n\tfor _, h := range hosts {", New: "\tif target = t.lookup(\"\", req.URL.Path, trace, pick, match); target != nil {\n\t\treturn target\n\t}\n\tfor _, h := range hosts {", Expect: "C03.O3"},
		{Name: "helper of the scan rejects long routes before consulting the matcher", File: f,
			Old: c03srcLookupInner, New: `func (t Table) lookup(host, path, trace string, pick picker, match matcher) *Target {
	for _, r := range t[strings.ToLower(host)] {
		if target, ok := tryRoute(r, path, pick, match); ok {
			return target
		}
	}
	return nil
}

func tryRoute(r *Route, path string, pick picker, match matcher) (*Target, bool) {
	if len(r.Path) > len(path) {
		return nil, false
	}
	if !match(path, r) {
		return nil, false
	}
	if len(r.Targets) == 0 {
		return nil, true
	}
	return pick(r), true
}
`, Expect: "C03.L1"},
		{Name: "scan remembers the match and goes on", File: f,
			Old: c03srcLookupInner, New: `func (t Table) lookup(host, path, trace string, pick picker, match matcher) *Target {
	var hit *Route
	for _, r := range t[strings.ToLower(host)] {
		if match(path, r) {
			hit = r
		}
	}
	if hit == nil || len(hit.Targets) == 0 {
		return nil
	}
	return pick(hit)
}
`, Expect: "C03.L1"},
		{Name: "inlined normaliser forgets the pattern's default port", File: f,
			Old: "\thost := normalizeHost(req.Host, req.TLS != nil)\n\n\tfor pattern := range t {\n\t\tnormpat := normalizeHost(pattern, req.TLS != nil)\n",
			New: `	host := strings.ToLower(req.Host)
	if req.TLS == nil && strings.HasSuffix(host, ":80") {
		host = host[:len(host)-len(":80")]
	} else if req.TLS != nil && strings.HasSuffix(host, ":443") {
		host = host[:len(host)-len(":443")]
	}

	for pattern := range t {
		normpat := strings.ToLower(pattern)
`, Expect: "C03.N1"},
		{Name: "inlined scan of LookupHost uses the raw host", File: f,
			Old: c03srcLookupInner, New: "",
			More: []repl{
				{"\t\tif target = t.lookup(h, req.URL.Path, trace, pick, match); target != nil {",
					"\t\ttarget = nil\n\t\tfor _, r := range t[h] {\n\t\t\tif !match(req.URL.Path, r) {\n\t\t\t\tcontinue\n\t\t\t}\n\t\t\tswitch len(r.Targets) {\n\t\t\tcase 0:\n\t\t\tcase 1:\n\t\t\t\ttarget = r.Targets[0]\n\t\t\tdefault:\n\t\t\t\ttarget = pick(r)\n\t\t\t}\n\t\t\tbreak\n\t\t}\n\t\tif target != nil {"},
				{"\treturn t.lookup(host, \"/\", \"\", pick, prefixMatcher)",
					"\tfor _, r := range t[host] {\n\t\tif !prefixMatcher(\"/\", r) {\n\t\t\tcontinue\n\t\t}\n\t\tswitch len(r.Targets) {\n\t\tcase 0:\n\t\t\treturn nil\n\t\tcase 1:\n\t\t\treturn r.Targets[0]\n\t\t}\n\t\treturn pick(r)\n\t}\n\treturn nil"},
			}, Expect: "C03.L1"},
		{Name: "inlined scan of Lookup keeps the last matching route", File: f,
			Old: c03srcLookupInner, New: "",
			More: []repl{
				{"\t\tif target = t.lookup(h, req.URL.Path, trace, pick, match); target != nil {",
					"\t\ttarget = nil\n\t\tfor _, r := range t[h] {\n\t\t\tif !match(req.URL.Path, r) {\n\t\t\t\tcontinue\n\t\t\t}\n\t\t\tswitch len(r.Targets) {\n\t\t\tcase 0:\n\t\t\tcase 1:\n\t\t\t\ttarget = r.Targets[0]\n\t\t\tdefault:\n\t\t\t\ttarget = pick(r)\n\t\t\t}\n\t\t}\n\t\tif target != nil {"},
				{"\treturn t.lookup(host, \"/\", \"\", pick, prefixMatcher)",
					"\tfor _, r := range t[strings.ToLower(host)] {\n\t\tif !prefixMatcher(\"/\", r) {\n\t\t\tcontinue\n\t\t}\n\t\tswitch len(r.Targets) {\n\t\tcase 0:\n\t\t\treturn nil\n\t\tcase 1:\n\t\t\treturn r.Targets[0]\n\t\t}\n\t\treturn pick(r)\n\t}\n\treturn nil"},
			}, Expect: "C03.L1"},
		{Name: "table-driven dispatch of the custom constructor lacks the delete command", File: f,
			Old: "\t\tswitch d.Cmd {\n\t\tcase RouteAddCmd:\n\t\t\terr = t.addRoute(&d)\n\t\tcase RouteDelCmd:\n\t\t\terr = t.delRoute(&d)\n\t\tcase RouteWeightCmd:\n\t\t\terr = t.weighRoute(&d)\n\t\tdefault:\n\t\t\terr = fmt.Errorf(\"route: invalid command: %s\", d.Cmd)\n\t\t}\n",
			New: "\t\tif apply, ok := customAppliers[d.Cmd]; ok {\n\t\t\terr = apply(t, &d)\n\t\t} else {\n\t\t\terr = fmt.Errorf(\"route: invalid command: %s\", d.Cmd)\n\t\t}\n",
			More: []repl{
				{"func NewTable(b *bytes.Buffer)", "var customAppliers = map[Cmd]func(Table, *RouteDef) error{\n\tRouteAddCmd:    Table.addRoute,\n\tRouteWeightCmd: Table.weighRoute,\n}\n\nfunc NewTable(b *bytes.Buffer)"},
			}, Expect: "C03.O1"},
		{Name: "preallocated list puts the host-less key first", File: f,
			Old: "\thosts = append(hosts, \"\")\n\tfor _, h := range hosts {", New: "\ttry := make([]string, 0, len(hosts)+1)\n\ttry = append(try, \"\")\n\ttry = append(try, hosts...)\n\tfor _, h := range try {", Expect: "C03.O3"},
	}
}()
