package main

// Rules of C01 added after the third round of independently authored breaking changes (DESIGN 11.10); wired in zzz_round3.go.

import (
	"go/token"
	"go/types"
	"strings"

	"golang.org/x/tools/go/ssa"
)

// ---- C01.W4: a changed value of the manual configuration is published whatever the index does -------------------

func runC01W4(c *Ctx) {
	n := 0
	for _, f := range c.fnsWhere("registry/consul", func(*ssa.Function) bool { return true }) {
		for _, l := range condLessLoops(f) {
			// the send of a text in this loop, and the Consul KV query it derives from: a wrapper around a blocking query
			// (found by role) or the api call itself
			var query *ssa.Call
			var send *ssa.Send
			isKVQuery := func(call *ssa.Call) bool {
				if _, isQ := blockingQueryParam(call.Call.StaticCallee()); isQ {
					return true
				}
				n := calleeName(&call.Call)
				if strings.HasPrefix(n, "(*"+apiPkg+".KV).") {
					return true
				}
				if sc := call.Call.StaticCallee(); sc != nil && isRepoFn(sc) {
					return mayExec(unwrap(sc), func(j ssa.Instruction) bool {
						jc := callCommon(j)
						return jc != nil && strings.HasPrefix(calleeName(jc), "(*"+apiPkg+".KV).")
					}, 0)
				}
				return false
			}
			for b := range l.Body {
				for _, in := range b.Instrs {
					s, ok := in.(*ssa.Send)
					if !ok {
						continue
					}
					bt, isB := s.X.Type().Underlying().(*types.Basic)
					if !isB || bt.Kind() != types.String {
						continue
					}
					for b2 := range l.Body {
						for _, in2 := range b2.Instrs {
							if call, ok := in2.(*ssa.Call); ok && isKVQuery(call) && derives(s.X, func(x ssa.Value) bool { return x == ssa.Value(call) }) {
								query, send = call, s
							}
						}
					}
				}
			}
			if query == nil || send == nil {
				continue
			}
			isText := func(v ssa.Value) bool {
				b, ok := v.Type().Underlying().(*types.Basic)
				return ok && b.Kind() == types.String && derives(v, func(x ssa.Value) bool { return x == ssa.Value(query) })
			}
			n++
			// from the query, the loop head must not be reachable without the send, except over the error edge and over
			// an edge on which the new text is known to equal the text published last (a loop-carried string)
			cut := func(pred, succ *ssa.BasicBlock) bool {
				for _, ft := range edgeFacts(pred, succ) {
					b, ok := ft.Cond.(*ssa.BinOp)
					if !ok {
						continue
					}
					// err != nil
					if (b.Op == token.NEQ && ft.Truth || b.Op == token.EQL && !ft.Truth) && (isNilConst(b.Y) || isNilConst(b.X)) {
						other := b.X
						if isNilConst(b.X) {
							other = b.Y
						}
						if derives(other, func(x ssa.Value) bool { return x == query }) {
							return true
						}
					}
					// text == last
					if (b.Op == token.EQL && ft.Truth || b.Op == token.NEQ && !ft.Truth) && (isText(b.X) || isText(b.Y)) {
						other := b.X
						if isText(b.X) {
							other = b.Y
						}
						if phi, ok := other.(*ssa.Phi); ok && phi.Block() == l.Head {
							return true
						}
					}
				}
				return false
			}
			skip := false
			type item struct {
				b   *ssa.BasicBlock
				idx int
			}
			seen := map[*ssa.BasicBlock]bool{}
			stack := []item{{query.Block(), instrIndex(query) + 1}}
			for len(stack) > 0 && !skip {
				it := stack[len(stack)-1]
				stack = stack[:len(stack)-1]
				blocked := false
				for k := it.idx; k < len(it.b.Instrs); k++ {
					if it.b.Instrs[k] == ssa.Instruction(send) {
						blocked = true
						break
					}
				}
				if blocked {
					continue
				}
				for _, sx := range it.b.Succs {
					if cut(it.b, sx) {
						continue
					}
					if sx == l.Head {
						skip = true
					} else if l.Body[sx] && !seen[sx] {
						seen[sx] = true
						stack = append(stack, item{sx, 0})
					}
				}
			}
			c.check("C01.W4", fnKey(f)+"|a changed manual configuration is always published", send.Pos(), !skip,
				"a reply of the KV watcher can be dropped although its text differs from the text published last (the only accepted skips are the error edge and 'text == last text'): when the Consul index does not advance the way the guard expects (snapshot restore, cluster rebuild: the index goes back) every later edit of the operator's overrides is discarded and the tables keep the stale commands")
		}
	}
	c.atLeast("C01.W4", "watch loops that publish the text of a blocking KV query", n, 1)
}
