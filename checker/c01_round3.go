package main

// Rules of C01 added after the third round of independently authored breaking changes (DESIGN 11.10); wired in zzz_round3.go.

import (
	"go/token"
	"go/types"
	"strings"

	"golang.org/x/tools/go/ssa"
)

// ---- C01.W4: a changed value of the manual configuration is published whatever the index does -------------------

func runC01W4(c *Ctx) {
	n := 0
	isKVQuery := func(call *ssa.Call) bool {
		if _, isQ := blockingQueryParam(call.Call.StaticCallee()); isQ {
			return true
		}
		isKV := func(n string) bool { return strings.HasPrefix(n, "(*"+apiPkg+".KV).") }
		if c01CalleeHas(&call.Call, isKV) {
			return true
		}
		if sc := call.Call.StaticCallee(); sc != nil && isRepoFn(sc) {
			return mayExec(unwrap(sc), func(j ssa.Instruction) bool {
				jc := callCommon(j)
				return c01CalleeHas(jc, isKV)
			}, 0)
		}
		return false
	}
	// sent: the text instruction in publishes: a send, or the call of a helper that sends its parameter on every path
	sent := func(in ssa.Instruction) ssa.Value {
		isStr := func(v ssa.Value) bool {
			bt, isB := v.Type().Underlying().(*types.Basic)
			return isB && bt.Kind() == types.String
		}
		switch x := in.(type) {
		case *ssa.Send:
			if isStr(x.X) {
				return x.X
			}
		case *ssa.Call:
			sc := x.Call.StaticCallee()
			if sc == nil || !isRepoFn(sc) || len(sc.Blocks) == 0 {
				return nil
			}
			sc = unwrap(sc)
			for k, par := range sc.Params {
				if k >= len(x.Call.Args) || !isStr(par) {
					continue
				}
				par := par
				if mustExec(sc, func(j ssa.Instruction) bool {
					s, ok := j.(*ssa.Send)
					return ok && derives(s.X, func(v ssa.Value) bool { return v == ssa.Value(par) })
				}, 0) {
					return x.Call.Args[k]
				}
			}
		}
		return nil
	}
	for _, f := range c.fnsWhere("registry/consul", func(*ssa.Function) bool { return true }) {
		// the units: the condition-less loops of f, and f itself (one round per call: `for { k.poll() }`) for what is not
		// inside such a loop
		loops := condLessLoops(f)
		inLoop := func(b *ssa.BasicBlock) bool {
			for _, l := range loops {
				if l.Body[b] {
					return true
				}
			}
			return false
		}
		units := append([]*loop{}, loops...)
		units = append(units, nil)
		for _, l := range units {
			inUnit := func(b *ssa.BasicBlock) bool {
				if l != nil {
					return l.Body[b]
				}
				return !inLoop(b)
			}
			// the send of a text in this unit, and the Consul KV query it derives from: a wrapper around a blocking query
			// (found by role) or the api call itself
			var query *ssa.Call
			var send ssa.Instruction
			for _, b := range f.Blocks {
				if !inUnit(b) {
					continue
				}
				for _, in := range b.Instrs {
					sx := sent(in)
					if sx == nil {
						continue
					}
					for _, b2 := range f.Blocks {
						if !inUnit(b2) {
							continue
						}
						for _, in2 := range b2.Instrs {
							if call, ok := in2.(*ssa.Call); ok && in2 != in && isKVQuery(call) && derives(sx, func(x ssa.Value) bool { return x == ssa.Value(call) }) {
								query, send = call, in
							}
						}
					}
				}
			}
			if query == nil || send == nil {
				continue
			}
			n++
			isText := func(v ssa.Value) bool {
				b, ok := v.Type().Underlying().(*types.Basic)
				return ok && b.Kind() == types.String && derives(v, func(x ssa.Value) bool {
					call, ok := x.(*ssa.Call)
					return ok && (x == ssa.Value(query) || isKVQuery(call))
				})
			}
			fromQuery := func(v ssa.Value) bool {
				return derives(v, func(x ssa.Value) bool {
					call, ok := x.(*ssa.Call)
					return ok && (x == ssa.Value(query) || isKVQuery(call))
				})
			}
			// isLast: the text published last: a variable carried by a loop, or a memory cell that outlives a round (a
			// field of the watcher's state, a captured variable) into which the text of a reply is stored
			isLast := func(v ssa.Value) bool {
				if phi, ok := v.(*ssa.Phi); ok {
					for _, lp := range loopsOf(phi.Parent()) {
						if lp.Head == phi.Block() {
							return true
						}
					}
					return false
				}
				ld, ok := v.(*ssa.UnOp)
				if !ok || ld.Op != token.MUL {
					return false
				}
				t := c01TracerOf(ld.Parent())
				if t == nil {
					return false
				}
				for _, loc := range t.locsOf(ld.X, nil) {
					if !loc.known() {
						continue
					}
					if a, ok := loc.root.(*ssa.Alloc); ok {
						fresh := false
						if l != nil {
							fresh = c01FreshPerRound(a, l, nil)
						} else {
							fresh = c01FreshPerRound(a, nil, f)
						}
						if fresh || (ld.Parent() != f && c01FreshPerRound(a, nil, ld.Parent())) {
							continue
						}
					}
					for _, st := range t.storesInto(loc.root, loc.path) {
						if isText(st.Val) {
							return true
						}
					}
				}
				return false
			}
			// a fact under which dropping the reply is legitimate
			legit := func(ft Fact) bool {
				b, ok := ft.Cond.(*ssa.BinOp)
				if !ok {
					return false
				}
				// err != nil
				if (b.Op == token.NEQ && ft.Truth || b.Op == token.EQL && !ft.Truth) && (isNilConst(b.Y) || isNilConst(b.X)) {
					other := b.X
					if isNilConst(b.X) {
						other = b.Y
					}
					if typeStr(other.Type()) == "error" && fromQuery(other) {
						return true
					}
				}
				// text == last
				if (b.Op == token.EQL && ft.Truth || b.Op == token.NEQ && !ft.Truth) && (isText(b.X) || isText(b.Y)) {
					other := b.X
					if isText(b.X) && !isLast(b.X) {
						other = b.Y
					}
					if isLast(other) {
						return true
					}
				}
				return false
			}
			// from the query, the loop head must not be reachable without the send, except over the error edge and over
			// an edge on which the new text is known to equal the text published last; the edge may also carry the
			// verdict of a helper (`value, ok := k.next()`): then every way the helper can give that verdict must be legitimate
			cut := func(pred, succ *ssa.BasicBlock) bool {
				for _, ft := range edgeFacts(pred, succ) {
					if legit(ft) {
						return true
					}
				}
				ef, ok := c01EdgeFact(pred, succ)
				if !ok {
					return false
				}
				var call *ssa.Call
				k := 0
				switch x := ef.Cond.(type) {
				case *ssa.Call:
					call = x
				case *ssa.Extract:
					call, _ = x.Tuple.(*ssa.Call)
					k = x.Index
				}
				if call == nil {
					return false
				}
				sc := call.Call.StaticCallee()
				if sc == nil || !isRepoFn(sc) || len(sc.Blocks) == 0 {
					return false
				}
				var points [][]Fact
				eachInstr(sc, func(i ssa.Instruction) {
					if r, ok := i.(*ssa.Return); ok && k < len(r.Results) {
						if bt, ok := r.Results[k].Type().Underlying().(*types.Basic); ok && bt.Kind() == types.Bool {
							points = append(points, c01Points(r.Results[k], r.Block(), ef.Truth, 1)...)
						}
					}
				})
				if len(points) == 0 {
					return false
				}
				for _, pt := range points {
					good := false
					for _, ft := range pt {
						if legit(ft) {
							good = true
						}
					}
					if !good {
						return false
					}
				}
				return true
			}
			skip := false
			type item struct {
				b   *ssa.BasicBlock
				idx int
			}
			seen := map[*ssa.BasicBlock]bool{}
			stack := []item{{query.Block(), instrIndex(query) + 1}}
			for len(stack) > 0 && !skip {
				it := stack[len(stack)-1]
				stack = stack[:len(stack)-1]
				blocked := false
				for k := it.idx; k < len(it.b.Instrs); k++ {
					if it.b.Instrs[k] == send {
						blocked = true
						break
					}
					if _, isRet := it.b.Instrs[k].(*ssa.Return); isRet && l == nil {
						skip = true
					}
				}
				if blocked {
					continue
				}
				for _, sx := range it.b.Succs {
					if cut(it.b, sx) {
						continue
					}
					if l != nil && sx == l.Head {
						skip = true
					} else if inUnit(sx) && !seen[sx] {
						seen[sx] = true
						stack = append(stack, item{sx, 0})
					}
				}
			}
			c.check("C01.W4", fnKey(f)+"|a changed manual configuration is always published", send.Pos(), !skip,
				"a reply of the KV watcher can be dropped although its text differs from the text published last (the only accepted skips are the error edge and 'text == last text'): when the Consul index does not advance the way the guard expects (snapshot restore, cluster rebuild: the index goes back) every later edit of the operator's overrides is discarded and the tables keep the stale commands")
		}
	}
	c.atLeast("C01.W4", "watch loops that publish the text of a blocking KV query", n, 1)
}
