package main

// Helpers of the round-4 rules of C01 (c01_round4.go): a backward value slice that follows what the config builder
// does (goroutines that hand their result over a channel, maps filled in place, struct literals passed to methods,
// closures), the notion of a ROUND of a watcher (one iteration of the loop that publishes) with the memory that outlives
// it, and goroutine start sites.

import (
	"go/token"
	"go/types"
	"os"
	"strings"

	"golang.org/x/tools/go/ssa"
)

// ---- small helpers ------------------------------------------------------------------------------------------------

// c01Bindings: what the makers of the closure bind to its free variable x.
func c01Bindings(x *ssa.FreeVar) []ssa.Value {
	fn := x.Parent()
	if fn == nil || fn.Parent() == nil {
		return nil
	}
	idx := -1
	for k, fv := range fn.FreeVars {
		if fv == x {
			idx = k
		}
	}
	var out []ssa.Value
	eachInstr(fn.Parent(), func(i ssa.Instruction) {
		if mc, ok := i.(*ssa.MakeClosure); ok && mc.Fn == fn && idx >= 0 && idx < len(mc.Bindings) {
			out = append(out, mc.Bindings[idx])
		}
	})
	return out
}

// c01SitesOf: the call sites (call, go, defer) of fn: the static ones and, for a closure, the calls of the variable it
// was assigned to in the function that makes it (and in its sibling closures).
func c01SitesOf(fn *ssa.Function) []ssa.CallInstruction {
	out := append([]ssa.CallInstruction{}, gSites[fn]...)
	if par := fn.Parent(); par != nil {
		for _, g := range withAnon(par) {
			eachInstr(g, func(i ssa.Instruction) {
				ci, ok := i.(ssa.CallInstruction)
				if !ok {
					return
				}
				cc := ci.Common()
				if cc.IsInvoke() || cc.StaticCallee() != nil {
					return
				}
				for _, t := range funcsOf(cc.Value) {
					if t == fn {
						out = append(out, ci)
					}
				}
			})
		}
	}
	return out
}

// c01AddrStores: the stores into the cell at addr, into its fields and elements, and - when the cell is captured - the
// stores the closures make through their free variable.
func c01AddrStores(addr ssa.Value, depth int) []*ssa.Store {
	var out []*ssa.Store
	refs := addr.Referrers()
	if refs == nil || depth > 4 {
		return nil
	}
	for _, r := range *refs {
		switch y := r.(type) {
		case *ssa.Store:
			if y.Addr == addr {
				out = append(out, y)
			}
		case *ssa.FieldAddr:
			if y.X == addr {
				out = append(out, c01AddrStores(y, depth+1)...)
			}
		case *ssa.IndexAddr:
			if y.X == addr {
				out = append(out, c01AddrStores(y, depth+1)...)
			}
		case *ssa.MakeClosure:
			fn, ok := y.Fn.(*ssa.Function)
			if !ok {
				continue
			}
			for k, b := range y.Bindings {
				if b == addr && k < len(fn.FreeVars) {
					out = append(out, c01AddrStores(fn.FreeVars[k], depth+1)...)
				}
			}
		case ssa.CallInstruction:
			// the address is handed to a repository function (fill(&x), go func(res *T){ *res = .. }(&slots[i])): the
			// stores that function makes through its parameter
			cc := y.Common()
			for _, t := range c01Targets(cc) {
				if len(cc.Args) != len(t.Params) {
					continue
				}
				for k, a := range cc.Args {
					if a == addr {
						out = append(out, c01AddrStores(t.Params[k], depth+1)...)
					}
				}
			}
		}
	}
	return out
}

// c01CellStores: the stores into the local cell addr denotes (a local, a captured local seen from the closure, a field
// or element of one) - to the same field when addr is a field address.
func c01CellStores(addr ssa.Value) []*ssa.Store {
	var root ssa.Value = c01AllocRoot(addr)
	if root == (*ssa.Alloc)(nil) {
		root = nil
	}
	if fv, ok := addr.(*ssa.FreeVar); ok {
		for _, b := range c01Bindings(fv) {
			if a, isA := b.(*ssa.Alloc); isA {
				root = a
			}
		}
	}
	if root == nil {
		return nil
	}
	var out []*ssa.Store
	fa, isField := addr.(*ssa.FieldAddr)
	for _, st := range c01AddrStores(root, 0) {
		if fb, ok := st.Addr.(*ssa.FieldAddr); ok && isField && fb.Field != fa.Field {
			continue
		}
		out = append(out, st)
	}
	return out
}

// c01AllocRoot: the local cell an address is rooted at (through field and element addresses), if any.
func c01AllocRoot(addr ssa.Value) *ssa.Alloc {
	for d := 0; d < 8; d++ {
		switch y := addr.(type) {
		case *ssa.Alloc:
			return y
		case *ssa.FieldAddr:
			addr = y.X
		case *ssa.IndexAddr:
			addr = y.X
		default:
			return nil
		}
	}
	return nil
}

func c01CellName(addr ssa.Value) string {
	switch a := addr.(type) {
	case *ssa.FieldAddr:
		t := a.X.Type()
		if p, ok := t.Underlying().(*types.Pointer); ok {
			t = p.Elem()
		}
		s := typeStr(t)
		if k := strings.LastIndex(s, "/"); k >= 0 {
			s = s[k+1:]
		}
		return s + "." + fieldName(a.X.Type(), a.Field)
	case *ssa.IndexAddr:
		return c01ContainerName(a.X)
	case *ssa.Alloc:
		return "local " + a.Comment + " of " + fnKey(a.Parent())
	case *ssa.Global:
		return "global " + a.Name()
	case *ssa.FreeVar:
		for _, b := range c01Bindings(a) {
			if n := c01CellName(b); n != "" {
				return n
			}
		}
	}
	return ""
}

// c01ContainerName: the cell a map / slice value lives in (the cell it was loaded from, or the make instruction of a
// local one).
func c01ContainerName(v ssa.Value) string {
	for d := 0; d < 8; d++ {
		switch x := v.(type) {
		case *ssa.UnOp:
			if x.Op == token.MUL {
				return c01CellName(x.X)
			}
			return ""
		case *ssa.MakeMap:
			return "local map made in " + fnKey(x.Parent()) + " (" + x.Parent().Prog.Fset.Position(x.Pos()).String() + ")"
		case *ssa.MakeSlice:
			return "local slice made in " + fnKey(x.Parent()) + " (" + x.Parent().Prog.Fset.Position(x.Pos()).String() + ")"
		case *ssa.Slice:
			v = x.X
		case *ssa.ChangeType:
			v = x.X
		case *ssa.FreeVar:
			bs := c01Bindings(x)
			if len(bs) == 0 {
				return ""
			}
			v = bs[0]
		case *ssa.Phi:
			for _, e := range x.Edges {
				if n := c01ContainerName(e); n != "" {
					return n
				}
			}
			return ""
		default:
			return ""
		}
	}
	return ""
}

func c01IsAPICall(call *ssa.Call) bool {
	return c01CalleeHas(&call.Call, func(n string) bool { return strings.Contains(n, apiPkg+".") || strings.Contains(n, apiPkg+")") })
}

// c01IsAPIQuery: a call into the Consul client that can fail, i.e. that talks to the agent (not an accessor like
// Client.Health()).
func c01IsAPIQuery(call *ssa.Call) bool {
	if !c01IsAPICall(call) {
		return false
	}
	res := call.Call.Signature().Results()
	for k := 0; k < res.Len(); k++ {
		if typeStr(res.At(k).Type()) == "error" {
			return true
		}
	}
	return false
}

// ---- the backward slice --------------------------------------------------------------------------------------------

var c01TraceFlow = os.Getenv("C01_TRACE") != ""

type c01FlowKey struct {
	v   ssa.Value
	top ssa.CallInstruction
}

// c01Flow walks everything a value is computed from. visit is called for every value reached; when it returns true
// the walk does not look behind that value.
type c01Flow struct {
	scope  []*ssa.Function // where stores to fields and sends on channels are looked for
	visit  func(v ssa.Value) bool
	ctl    bool // follow the conditions that select among merged values too
	seen   map[c01FlowKey]bool
	stack  []ssa.CallInstruction
	steps  int
	sends  []*ssa.Send
	sel    []*ssa.Select
	fstore map[string][]*ssa.Store
}

func newC01Flow(scope []*ssa.Function, visit func(ssa.Value) bool) *c01Flow {
	return &c01Flow{scope: scope, visit: visit, seen: map[c01FlowKey]bool{}}
}

func (w *c01Flow) top() ssa.CallInstruction {
	if len(w.stack) == 0 {
		return nil
	}
	return w.stack[len(w.stack)-1]
}

// detached: continue in code whose calling context is not the one we came through.
func (w *c01Flow) detached(f func()) {
	old := w.stack
	w.stack = nil
	f()
	w.stack = old
}

func (w *c01Flow) index() {
	if w.fstore != nil {
		return
	}
	w.fstore = map[string][]*ssa.Store{}
	eachInstrOf(w.scope, func(_ *ssa.Function, i ssa.Instruction) {
		switch x := i.(type) {
		case *ssa.Send:
			w.sends = append(w.sends, x)
		case *ssa.Select:
			w.sel = append(w.sel, x)
		case *ssa.Store:
			if fa, ok := x.Addr.(*ssa.FieldAddr); ok {
				k := c01FieldKey(fa.X.Type(), fa.Field)
				w.fstore[k] = append(w.fstore[k], x)
			}
		}
	})
}

func (w *c01Flow) walk(v ssa.Value) {
	if v == nil || w.steps > 300000 {
		return
	}
	k := c01FlowKey{v, w.top()}
	if w.seen[k] {
		return
	}
	w.seen[k] = true
	w.steps++
	if c01TraceFlow {
		pf := "?"
		if in, ok := v.(ssa.Instruction); ok && in.Parent() != nil {
			pf = in.Parent().Name()
		} else if v.Parent() != nil {
			pf = v.Parent().Name()
		}
		println("   walk", pf, v.Name(), "=", v.String())
	}
	if w.visit != nil && w.visit(v) {
		return
	}
	switch x := v.(type) {
	case *ssa.Parameter:
		w.param(x)
	case *ssa.FreeVar:
		w.detached(func() {
			for _, b := range c01Bindings(x) {
				w.walk(b)
			}
		})
	case *ssa.Phi:
		for _, e := range x.Edges {
			w.walk(e)
		}
		if w.ctl {
			// which edge is taken depends on the branch conditions on the way to it
			for _, pb := range x.Block().Preds {
				for _, ft := range localFactsAt(pb) {
					w.walk(ft.Cond)
				}
			}
		}
	case *ssa.UnOp:
		switch x.Op {
		case token.MUL:
			w.load(x)
		case token.ARROW:
			w.recv(x.X)
		default:
			w.walk(x.X)
		}
	case *ssa.Alloc:
		for _, st := range c01AddrStores(x, 0) {
			st := st
			if st.Parent() == x.Parent() {
				w.walk(st.Val)
			} else {
				w.detached(func() { w.walk(st.Val) })
			}
		}
		// a builder / buffer filled through library calls (b.WriteString(s), fmt.Fprintf(&b, ...)): what is handed to them
		w.filled(x, 0)
	case *ssa.MakeMap, *ssa.MakeSlice:
		w.container(v)
	case *ssa.BinOp:
		w.walk(x.X)
		w.walk(x.Y)
	case *ssa.Convert:
		w.walk(x.X)
	case *ssa.ChangeType:
		w.walk(x.X)
	case *ssa.ChangeInterface:
		w.walk(x.X)
	case *ssa.MakeInterface:
		w.walk(x.X)
	case *ssa.TypeAssert:
		w.walk(x.X)
	case *ssa.SliceToArrayPointer:
		w.walk(x.X)
	case *ssa.Slice:
		if k, ok := x.High.(*ssa.Const); ok && k.Value != nil && k.Int64() == 0 {
			return // s[:0]: the storage of s and none of its content
		}
		w.walk(x.X)
	case *ssa.Field:
		w.walk(x.X)
	case *ssa.FieldAddr:
		w.walk(x.X)
	case *ssa.IndexAddr:
		w.walk(x.X)
	case *ssa.Index:
		w.walk(x.X)
	case *ssa.Lookup:
		w.walk(x.X)
		w.walk(x.Index)
	case *ssa.Next:
		w.walk(x.Iter)
	case *ssa.Range:
		w.walk(x.X)
	case *ssa.Select:
		for _, st := range x.States {
			if st.Dir == types.RecvOnly {
				w.recv(st.Chan)
			}
		}
	case *ssa.Extract:
		if call, ok := x.Tuple.(*ssa.Call); ok {
			if w.visit != nil && w.visit(call) {
				return
			}
			w.call(call, x.Index)
			return
		}
		w.walk(x.Tuple)
	case *ssa.Call:
		w.call(x, -1)
	}
}

// filled: the object at ptr is filled through library calls that are given the pointer (b.WriteString(s),
// fmt.Fprintf(&b, ...)): what is handed to them - also inside repository helpers that are given the pointer.
func (w *c01Flow) filled(ptr ssa.Value, depth int) {
	refs := ptr.Referrers()
	if refs == nil || depth > 3 {
		return
	}
	alias := map[ssa.Value]bool{ptr: true}
	users := append([]ssa.Instruction{}, *refs...)
	for _, r := range *refs {
		if mi, ok := r.(*ssa.MakeInterface); ok && mi.Referrers() != nil { // fmt.Fprintf(&b, ...)
			alias[mi] = true
			users = append(users, *mi.Referrers()...)
		}
	}
	for _, r := range users {
		cc := callCommon(r)
		if cc == nil {
			continue
		}
		if ts := c01Targets(cc); len(ts) > 0 {
			for _, t := range ts {
				if len(cc.Args) != len(t.Params) {
					continue
				}
				for k, a := range cc.Args {
					if alias[a] {
						if _, isPtr := t.Params[k].Type().Underlying().(*types.Pointer); isPtr || types.IsInterface(t.Params[k].Type()) {
							t, k := t, k
							w.detached(func() { w.filled(t.Params[k], depth+1) })
						}
					}
				}
			}
			continue
		}
		uses := false
		for _, a := range cc.Args {
			uses = uses || alias[a]
		}
		if !uses {
			continue
		}
		for _, a := range cc.Args {
			if !alias[a] {
				w.walk(a)
			}
		}
	}
}

func (w *c01Flow) param(x *ssa.Parameter) {
	fn := x.Parent()
	idx := c01ParamIndex(x)
	if fn == nil || idx < 0 {
		return
	}
	argOf := func(site ssa.CallInstruction) ssa.Value {
		cc := site.Common()
		if len(cc.Args) != len(fn.Params) || idx >= len(cc.Args) {
			return nil
		}
		return cc.Args[idx]
	}
	if top := w.top(); top != nil {
		for _, t := range c01Targets(top.Common()) {
			if t == fn {
				w.stack = w.stack[:len(w.stack)-1]
				w.walk(argOf(top))
				w.stack = append(w.stack, top)
				return
			}
		}
	}
	sites := c01SitesOf(fn)
	if len(sites) == 0 || len(sites) > 8 {
		return
	}
	w.detached(func() {
		for _, s := range sites {
			w.walk(argOf(s))
		}
	})
}

// c01Targets: the repository functions a call can enter: its static callee, or the closures its function value denotes.
func c01Targets(cc *ssa.CallCommon) []*ssa.Function {
	if cc.IsInvoke() {
		return nil
	}
	if sc := cc.StaticCallee(); sc != nil {
		if isRepoFn(sc) && len(unwrap(sc).Blocks) > 0 {
			return []*ssa.Function{unwrap(sc)}
		}
		return nil
	}
	var out []*ssa.Function
	for _, t := range funcsOf(cc.Value) {
		if len(t.Blocks) > 0 {
			out = append(out, t)
		}
	}
	return out
}

func (w *c01Flow) call(x *ssa.Call, idx int) {
	if ts := c01Targets(&x.Call); len(ts) > 0 && len(w.stack) < 8 {
		for _, t := range ts {
			w.stack = append(w.stack, x)
			eachInstr(t, func(i ssa.Instruction) {
				r, ok := i.(*ssa.Return)
				if !ok {
					return
				}
				for k, res := range r.Results {
					if idx < 0 || k == idx {
						w.walk(res)
					}
				}
			})
			w.stack = w.stack[:len(w.stack)-1]
		}
		return
	}
	// a library function, a method called through an interface: the result derives from the operands
	if x.Call.IsInvoke() {
		w.walk(x.Call.Value)
	}
	for _, a := range x.Call.Args {
		w.walk(a)
	}
}

func (w *c01Flow) load(x *ssa.UnOp) {
	switch a := x.X.(type) {
	case *ssa.Alloc:
		w.walk(a)
	case *ssa.FreeVar:
		w.detached(func() {
			for _, b := range c01Bindings(a) {
				w.walk(b)
			}
		})
	case *ssa.FieldAddr:
		if root := c01AllocRoot(a); root != nil {
			// a field of a local struct: what is stored into that field of that struct
			for _, st := range c01AddrStores(root, 0) {
				if fb, ok := st.Addr.(*ssa.FieldAddr); ok && fb.Field == a.Field && types.Identical(fb.X.Type(), a.X.Type()) {
					w.walk(st.Val)
				} else if st.Addr == ssa.Value(root) {
					w.walk(st.Val) // the whole struct is stored (a parameter spilled to its cell)
				}
			}
			return
		}
		w.index()
		for _, st := range w.fstore[c01FieldKey(a.X.Type(), a.Field)] {
			st := st
			if st.Parent() == x.Parent() {
				w.walk(st.Val)
			} else {
				w.detached(func() { w.walk(st.Val) })
			}
		}
		w.walk(a.X)
	case *ssa.IndexAddr:
		w.walk(a.X)
	case *ssa.Global:
		for _, st := range gGlobalStores[a] {
			st := st
			w.detached(func() { w.walk(st.Val) })
		}
	default:
		w.walk(x.X)
	}
}

// container: a map or slice made here: what is put into it in place (m[k] = v, m[k][j] = v, s[i] = v).
func (w *c01Flow) container(v ssa.Value) {
	w.containerD(v, 0)
}

// c01CellLoads: the loads of the cell at addr - in its function and, when closures capture the cell, in the closures.
func c01CellLoads(addr ssa.Value, depth int) []*ssa.UnOp {
	var out []*ssa.UnOp
	refs := addr.Referrers()
	if refs == nil || depth > 3 {
		return nil
	}
	for _, r := range *refs {
		switch y := r.(type) {
		case *ssa.UnOp:
			if y.Op == token.MUL && y.X == addr {
				out = append(out, y)
			}
		case *ssa.MakeClosure:
			fn, ok := y.Fn.(*ssa.Function)
			if !ok {
				continue
			}
			for k, b := range y.Bindings {
				if b == addr && k < len(fn.FreeVars) {
					out = append(out, c01CellLoads(fn.FreeVars[k], depth+1)...)
				}
			}
		}
	}
	return out
}

func (w *c01Flow) containerD(v ssa.Value, depth int) {
	refs := v.Referrers()
	if refs == nil || depth > 3 {
		return
	}
	for _, r := range *refs {
		switch y := r.(type) {
		case *ssa.Store:
			// the container is kept in a local variable that closures share (results := make(..); go func() {
			// results[i] = .. }()): what is put into it through the other names of that variable
			if y.Val != v {
				continue
			}
			if _, isLocal := y.Addr.(*ssa.Alloc); !isLocal {
				continue
			}
			for _, ld := range c01CellLoads(y.Addr, 0) {
				if ld != v {
					w.containerD(ld, depth+1)
				}
			}
		case *ssa.Slice:
			if y.X == v {
				w.containerD(y, depth+1)
			}
		case *ssa.MapUpdate:
			if y.Map == v {
				w.walk(y.Key)
				w.walk(y.Value)
			}
		case *ssa.Lookup:
			if y.X != v || y.Referrers() == nil {
				continue
			}
			for _, r2 := range *y.Referrers() {
				if mu, ok := r2.(*ssa.MapUpdate); ok && mu.Map == ssa.Value(y) {
					w.walk(mu.Key)
					w.walk(mu.Value)
				}
			}
		case *ssa.IndexAddr:
			if y.X == v {
				for _, st := range c01AddrStores(y, 0) {
					w.walk(st.Val)
				}
			}
		}
	}
}

// c01ChanRoots: the make(chan) instructions a channel value can denote (nil: not visible).
func c01ChanRoots(v ssa.Value) map[*ssa.MakeChan]bool {
	out := map[*ssa.MakeChan]bool{}
	seen := map[ssa.Value]bool{}
	unknown := false
	var walk func(x ssa.Value, d int)
	walk = func(x ssa.Value, d int) {
		if x == nil || seen[x] {
			return
		}
		seen[x] = true
		if d > 8 {
			unknown = true
			return
		}
		switch y := x.(type) {
		case *ssa.MakeChan:
			out[y] = true
		case *ssa.Phi:
			for _, e := range y.Edges {
				walk(e, d+1)
			}
		case *ssa.ChangeType:
			walk(y.X, d+1)
		case *ssa.Call:
			// the channel a repository helper hands back (done := start(..))
			ts := c01Targets(&y.Call)
			if len(ts) == 0 {
				unknown = true
			}
			for _, t := range ts {
				eachInstr(t, func(i ssa.Instruction) {
					if r, ok := i.(*ssa.Return); ok {
						for _, res := range r.Results {
							if types.Identical(res.Type().Underlying(), y.Type().Underlying()) || (len(r.Results) == 1 && c01ChanLike(res.Type(), y.Type())) {
								walk(res, d+1)
							}
						}
					}
				})
			}
		case *ssa.FreeVar:
			bs := c01Bindings(y)
			if len(bs) == 0 {
				unknown = true
			}
			for _, b := range bs {
				walk(b, d+1)
			}
		case *ssa.Alloc:
			for _, st := range c01AddrStores(y, 0) {
				if st.Addr == ssa.Value(y) || c01AllocRoot(st.Addr) == nil {
					walk(st.Val, d+1)
				}
			}
		case *ssa.UnOp:
			if y.Op != token.MUL {
				unknown = true
				return
			}
			switch a := y.X.(type) {
			case *ssa.Alloc:
				walk(a, d+1)
			case *ssa.FreeVar:
				walk(a, d+1)
			case *ssa.FieldAddr:
				// a channel kept in a field of a struct: what the repository stores into that field of that type
				var sts []*ssa.Store
				if t := c01TracerOf(y.Parent()); t != nil {
					sts = t.byField[c01FieldKey(a.X.Type(), a.Field)]
				}
				if len(sts) == 0 || len(sts) > 8 {
					unknown = true
				}
				for _, st := range sts {
					walk(st.Val, d+1)
				}
			default:
				unknown = true
			}
		case *ssa.Parameter:
			fn := y.Parent()
			idx := c01ParamIndex(y)
			sites := c01SitesOf(fn)
			if len(sites) == 0 || len(sites) > 8 {
				unknown = true
			}
			for _, s := range sites {
				cc := s.Common()
				if len(cc.Args) != len(fn.Params) || idx < 0 {
					unknown = true
					continue
				}
				walk(cc.Args[idx], d+1)
			}
		default:
			unknown = true
		}
	}
	walk(v, 0)
	if unknown {
		return nil
	}
	return out
}

// c01ChanLike: two channel types with the same element type (chan T handed out as <-chan T).
func c01ChanLike(a, b types.Type) bool {
	ca, ok1 := a.Underlying().(*types.Chan)
	cb, ok2 := b.Underlying().(*types.Chan)
	return ok1 && ok2 && types.Identical(ca.Elem(), cb.Elem())
}

func c01SameChan(a, b ssa.Value) bool {
	ca, ok1 := a.Type().Underlying().(*types.Chan)
	cb, ok2 := b.Type().Underlying().(*types.Chan)
	if !ok1 || !ok2 || !types.Identical(ca.Elem(), cb.Elem()) {
		return false
	}
	ra, rb := c01ChanRoots(a), c01ChanRoots(b)
	if ra == nil || rb == nil {
		return true // not visible: channels of the same element type may be the same
	}
	for k := range ra {
		if rb[k] {
			return true
		}
	}
	return false
}

// c01LeavesWatcher: a text channel on which configurations leave the package: nobody in registry/consul receives from it
// (WatchServices makes it, starts the watcher with it and returns it; the table updater in package main receives) - or
// its maker is not visible. A channel the watcher's own code receives from (a hand-over between its goroutines) is not.
func c01LeavesWatcher(c *Ctx, ch ssa.Value) bool {
	if !c01IsTextChan(ch.Type()) {
		return false
	}
	roots := c01ChanRoots(ch)
	if len(roots) == 0 {
		return true
	}
	for _, rc := range c01Receives(c) {
		if !types.Identical(rc.Type().Underlying(), ch.Type().Underlying()) && !c01IsTextChan(rc.Type()) {
			continue
		}
		for mk := range c01ChanRoots(rc) {
			if roots[mk] {
				return false
			}
		}
	}
	return true
}

var c01RecvMemo struct {
	prog  *ssa.Program
	chans []ssa.Value
}

// c01Receives: the channels the code of registry/consul receives from.
func c01Receives(c *Ctx) []ssa.Value {
	if c01RecvMemo.prog == c.Prog {
		return c01RecvMemo.chans
	}
	var out []ssa.Value
	for _, f := range c.fnsWhere(consulPkg, func(*ssa.Function) bool { return true }) {
		eachInstr(f, func(i ssa.Instruction) {
			switch x := i.(type) {
			case *ssa.UnOp:
				if x.Op == token.ARROW {
					out = append(out, x.X)
				}
			case *ssa.Select:
				for _, st := range x.States {
					if st.Dir == types.RecvOnly {
						out = append(out, st.Chan)
					}
				}
			}
		})
	}
	c01RecvMemo.prog, c01RecvMemo.chans = c.Prog, out
	return out
}

// recv: what is received from ch is what somebody sends on it.
func (w *c01Flow) recv(ch ssa.Value) {
	w.index()
	w.detached(func() {
		for _, s := range w.sends {
			if c01SameChan(ch, s.Chan) {
				w.walk(s.X)
			}
		}
		for _, s := range w.sel {
			for _, st := range s.States {
				if st.Dir == types.SendOnly && c01SameChan(ch, st.Chan) {
					w.walk(st.Send)
				}
			}
		}
	})
}

// ---- rounds of a watcher ------------------------------------------------------------------------------------------

// c01Round: one iteration of loop l of fn (l == nil: one call of fn) and the code it executes.
type c01Round struct {
	fn   *ssa.Function
	l    *loop
	in   map[*ssa.Function]bool // functions called, started or made by the body of the round
	memo map[ssa.Value]bool
}

func c01LoopAround(i ssa.Instruction) *loop {
	var best *loop
	if i.Block() == nil {
		return nil
	}
	for _, l := range loopsOf(i.Parent()) {
		if l.Body[i.Block()] && (best == nil || len(l.Body) > len(best.Body)) {
			best = l
		}
	}
	return best
}

// c01RoundOf: the round in which instruction s executes: the outermost loop around it - in its function, or around
// the call (or go statement) that runs its function, a few levels up.
func c01RoundOf(s ssa.Instruction) *c01Round {
	var at ssa.Instruction = s
	for hop := 0; hop < 4; hop++ {
		if l := c01LoopAround(at); l != nil {
			return newC01Round(at.Parent(), l)
		}
		sites := c01SitesOf(at.Parent())
		if len(sites) != 1 {
			break
		}
		at = sites[0] // also through a go statement: the goroutine belongs to the round that starts it
	}
	return newC01Round(s.Parent(), nil)
}

func newC01Round(fn *ssa.Function, l *loop) *c01Round {
	r := &c01Round{fn: fn, l: l, in: map[*ssa.Function]bool{}, memo: map[ssa.Value]bool{}}
	home := rootPkg(fn)
	var add func(g *ssa.Function, d int)
	var scan func(i ssa.Instruction, d int)
	add = func(g *ssa.Function, d int) {
		if g == nil || r.in[g] || g == fn || len(g.Blocks) == 0 || !isRepoFn(g) || rootPkg(g) != home || d > 6 {
			return
		}
		r.in[g] = true
		eachInstr(g, func(i ssa.Instruction) { scan(i, d) })
	}
	scan = func(i ssa.Instruction, d int) {
		for _, op := range i.Operands(nil) {
			if op == nil || *op == nil {
				continue
			}
			switch x := (*op).(type) {
			case *ssa.Function:
				add(unwrap(x), d+1)
			case *ssa.MakeClosure:
				if g, ok := x.Fn.(*ssa.Function); ok {
					add(unwrap(g), d+1)
				}
			}
		}
		if cc := callCommon(i); cc != nil && !cc.IsInvoke() && cc.StaticCallee() == nil {
			for _, g := range funcsOf(cc.Value) {
				add(g, d+1)
			}
		}
	}
	for _, b := range fn.Blocks {
		if l != nil && !l.Body[b] {
			continue
		}
		for _, i := range b.Instrs {
			scan(i, 0)
		}
	}
	return r
}

// has: the instruction executes within a round.
func (r *c01Round) has(i ssa.Instruction) bool {
	f := i.Parent()
	if f == r.fn {
		return r.l == nil || (i.Block() != nil && r.l.Body[i.Block()])
	}
	return r.in[f]
}

func (r *c01Round) instrs(visit func(ssa.Instruction)) {
	for _, b := range r.fn.Blocks {
		if r.l != nil && !r.l.Body[b] {
			continue
		}
		for _, i := range b.Instrs {
			visit(i)
		}
	}
	for g := range r.in {
		eachInstr(g, visit)
	}
}

// carried: the object v denotes (the cell at address v) outlives a round: it is made outside the round, it is a
// parameter of the function that runs the rounds, a package variable, or it is reached through such memory.
func (r *c01Round) carried(v ssa.Value) bool {
	return r.carriedD(v, 0)
}

func (r *c01Round) carriedD(v ssa.Value, d int) bool {
	if v == nil || d > 12 {
		return false
	}
	if res, ok := r.memo[v]; ok {
		return res
	}
	r.memo[v] = false // cycles add nothing
	res := false
	switch x := v.(type) {
	case *ssa.Alloc:
		res = !r.has(x)
	case *ssa.MakeMap:
		res = !r.has(x)
	case *ssa.MakeSlice:
		res = !r.has(x)
	case *ssa.MakeChan:
		res = !r.has(x)
	case *ssa.Global:
		res = true
	case *ssa.Parameter:
		fn := x.Parent()
		if fn == r.fn || !r.in[fn] {
			res = true
			break
		}
		idx := c01ParamIndex(x)
		n := 0
		for _, s := range c01SitesOf(fn) {
			cc := s.Common()
			if !r.has(s) || len(cc.Args) != len(fn.Params) || idx < 0 {
				continue
			}
			n++
			if r.carriedD(cc.Args[idx], d+1) {
				res = true
			}
		}
		if n == 0 {
			res = true
		}
	case *ssa.FreeVar:
		for _, b := range c01Bindings(x) {
			if r.carriedD(b, d+1) {
				res = true
			}
		}
	case *ssa.UnOp:
		if x.Op == token.MUL {
			res = r.carriedD(x.X, d+1)
			if !res {
				// a pointer kept in a cell of this round (a spilled parameter, a captured variable, a field of a
				// struct literal): the object is what was put there
				for _, st := range c01CellStores(x.X) {
					if types.Identical(st.Val.Type(), x.Type()) && r.carriedD(st.Val, d+1) {
						res = true
					}
				}
			}
		}
	case *ssa.FieldAddr:
		res = r.carriedD(x.X, d+1)
	case *ssa.IndexAddr:
		res = r.carriedD(x.X, d+1)
	case *ssa.Field:
		res = r.carriedD(x.X, d+1)
	case *ssa.Index:
		res = r.carriedD(x.X, d+1)
	case *ssa.Slice:
		res = r.carriedD(x.X, d+1)
	case *ssa.Lookup:
		res = r.carriedD(x.X, d+1)
	case *ssa.ChangeType:
		res = r.carriedD(x.X, d+1)
	case *ssa.Convert:
		res = r.carriedD(x.X, d+1)
	case *ssa.MakeInterface:
		res = r.carriedD(x.X, d+1)
	case *ssa.ChangeInterface:
		res = r.carriedD(x.X, d+1)
	case *ssa.TypeAssert:
		res = r.carriedD(x.X, d+1)
	case *ssa.Extract:
		res = r.carriedD(x.Tuple, d+1)
	case *ssa.Next:
		res = r.carriedD(x.Iter, d+1)
	case *ssa.Range:
		res = r.carriedD(x.X, d+1)
	case *ssa.Phi:
		for _, e := range x.Edges {
			if r.carriedD(e, d+1) {
				res = true
			}
		}
	case *ssa.Call:
		for _, t := range c01Targets(&x.Call) {
			eachInstr(t, func(i ssa.Instruction) {
				if ret, ok := i.(*ssa.Return); ok {
					for _, rv := range ret.Results {
						if _, isPtr := rv.Type().Underlying().(*types.Pointer); isPtr && r.carriedD(rv, d+1) {
							res = true
						}
					}
				}
			})
		}
	}
	r.memo[v] = res
	return res
}

// ---- goroutine start sites -----------------------------------------------------------------------------------------

// c01Spawned: the repository functions instruction i starts in another goroutine (go f(), go func(){}(),
// time.AfterFunc(d, f)); nil when it is not a start site.
func c01Spawned(i ssa.Instruction) []*ssa.Function {
	switch x := i.(type) {
	case *ssa.Go:
		return c01Targets(&x.Call)
	case *ssa.Call:
		if calleeName(&x.Call) == "time.AfterFunc" && len(x.Call.Args) == 2 {
			return funcsOf(x.Call.Args[1])
		}
	}
	return nil
}

func c01IsSpawn(i ssa.Instruction) bool {
	if _, ok := i.(*ssa.Go); ok {
		return true
	}
	call, ok := i.(*ssa.Call)
	return ok && calleeName(&call.Call) == "time.AfterFunc"
}

// c01SyncRegion: the functions that run in the goroutine of the roots: what they call (statically, through a closure
// variable, as a callback handed to a call) - not what they start with go.
func c01SyncRegion(roots ...*ssa.Function) []*ssa.Function {
	var out []*ssa.Function
	seen := map[*ssa.Function]bool{}
	var add func(f *ssa.Function, d int)
	add = func(f *ssa.Function, d int) {
		if f == nil || seen[f] || len(f.Blocks) == 0 || !isRepoFn(f) || d > 6 {
			return
		}
		seen[f] = true
		out = append(out, f)
		eachInstr(f, func(i ssa.Instruction) {
			if c01IsSpawn(i) {
				return
			}
			cc := callCommon(i)
			if cc == nil {
				return
			}
			for _, t := range c01Targets(cc) {
				add(t, d+1)
			}
			for _, a := range cc.Args {
				if _, isFn := a.Type().Underlying().(*types.Signature); isFn {
					for _, t := range funcsOf(a) {
						add(t, d+1)
					}
				}
			}
		})
	}
	for _, r := range roots {
		add(r, 0)
	}
	return out
}

// c01OncePerStart: the instruction is executed at most once per call of the outermost function that leads to it: it is
// in no loop, and neither are the calls that lead to its function.
func c01InLoopChain(i ssa.Instruction, depth int) bool {
	if c01LoopAround(i) != nil {
		return true
	}
	if depth > 4 {
		return false
	}
	for _, s := range c01SitesOf(i.Parent()) {
		if s.Parent() != i.Parent() && c01InLoopChain(s, depth+1) {
			return true
		}
	}
	return false
}
