package main

// Round 5 (hardening round 3): calls into the Consul client are recognised by ROLE also when the code talks to the
// client through a narrow interface of its own (type healthAPI interface{ State(..) }, a field of that type filled with
// client.Health()): the call is then an invoke on a repository interface, and the client method it enters is the method
// of the api type that implements that interface.

import (
	"go/types"
	"sort"
	"strings"
	"sync"

	"golang.org/x/tools/go/ssa"
)

var c01APIMemo sync.Map // *types.Func (interface method) -> []string

// c01APIPackageOf: the types package of the consul api if a type of it occurs in the signature.
func c01APIPackageOf(sig *types.Signature) *types.Package {
	var found *types.Package
	var look func(t types.Type, d int)
	look = func(t types.Type, d int) {
		if found != nil || t == nil || d > 4 {
			return
		}
		switch x := t.(type) {
		case *types.Named:
			if o := x.Obj(); o != nil && o.Pkg() != nil && o.Pkg().Path() == apiPkg {
				found = o.Pkg()
			}
		case *types.Pointer:
			look(x.Elem(), d+1)
		case *types.Slice:
			look(x.Elem(), d+1)
		case *types.Array:
			look(x.Elem(), d+1)
		case *types.Map:
			look(x.Key(), d+1)
			look(x.Elem(), d+1)
		}
	}
	for _, tup := range []*types.Tuple{sig.Params(), sig.Results()} {
		for k := 0; k < tup.Len(); k++ {
			look(tup.At(k).Type(), 0)
		}
	}
	return found
}

// c01APINames: the names of the functions a call enters, as calleeName spells them; for an invoke on an interface that
// is not the api's own, additionally the methods of the api types (*api.Health, *api.KV, *api.Catalog ...) that implement
// the interface - the client methods the call stands for.
func c01APINames(cc *ssa.CallCommon) []string {
	n := calleeName(cc)
	if !cc.IsInvoke() {
		return []string{n}
	}
	if named, ok := cc.Value.Type().(*types.Named); ok && named.Obj() != nil && named.Obj().Pkg() != nil && named.Obj().Pkg().Path() == apiPkg {
		return []string{n} // an interface of the api itself
	}
	if memo, ok := c01APIMemo.Load(cc.Method); ok {
		return append([]string{n}, memo.([]string)...)
	}
	var out []string
	iface, _ := cc.Value.Type().Underlying().(*types.Interface)
	sig, _ := cc.Method.Type().(*types.Signature)
	if iface != nil && sig != nil {
		if pkg := c01APIPackageOf(sig); pkg != nil {
			sc := pkg.Scope()
			for _, name := range sc.Names() {
				tn, ok := sc.Lookup(name).(*types.TypeName)
				if !ok || tn.IsAlias() {
					continue
				}
				named, ok := tn.Type().(*types.Named)
				if !ok || types.IsInterface(named) || named.TypeParams().Len() > 0 {
					continue
				}
				ptr := types.NewPointer(named)
				if types.Implements(ptr, iface) {
					out = append(out, "(*"+apiPkg+"."+name+")."+cc.Method.Name())
				}
			}
		}
	}
	sort.Strings(out)
	c01APIMemo.Store(cc.Method, out)
	return append([]string{n}, out...)
}

// c01CalleeHas: one of the functions the call enters satisfies pred.
func c01CalleeHas(cc *ssa.CallCommon, pred func(name string) bool) bool {
	if cc == nil {
		return false
	}
	for _, n := range c01APINames(cc) {
		if pred(n) {
			return true
		}
	}
	return false
}

// c01APIMethod: the client method the call enters ("(*api.Health).State"), "" if none.
func c01APIMethod(cc *ssa.CallCommon) string {
	for _, n := range c01APINames(cc) {
		if strings.HasPrefix(n, "(*"+apiPkg+".") {
			return n
		}
	}
	return ""
}
