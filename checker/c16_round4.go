package main

// Rules of C16 added after the fourth round of independently authored breaking changes (DESIGN 11.12); wired in
// zzz_round4.go.
//
//   C16.P6  the request path never closes a connection that it read from the pool (other calls are using it), and never
//           hands a connection to the call after it has closed it            (seeded/C16-7: use of a shared resource
//           after / while somebody else releases it)
//   C16.D1  the message-size limits of the backend leg are fed by the configuration value that governs the matching
//           leg of the listener                                              (seeded/C16-8: a limit configured for one
//           direction applied to the other)

import (
	"go/constant"
	"go/token"
	"math"
	"strings"

	"golang.org/x/tools/go/ssa"
)

func init() {
	const gh = "proxy/grpc_handler.go"
	const setOld = "\tif cur := p.connections[key]; cur != nil && cur != conn && cur.GetState() != connectivity.Shutdown {\n\t\tconn.Close()\n\t\treturn cur\n\t}\n"
	addRound4("C16", "(P6) on the request path (everything the director runs to obtain a connection) a connection that is closed is never one that was read from the pool table, unless it is known to be shut down already, and a connection that has just been closed (directly or by the helper it was passed to) is not the one returned to the call: a pooled connection is shared by all calls to that backend, so closing it - e.g. because a concurrent first call replaces it - fails the calls that use it with Canceled 'the client connection is closing' instead of the backend's reply and status.", runC16P6,
		// ---- breaks
		mutant{Name: "P6: pool keeps the newest connection and closes the one it replaces (seeded/C16-7)", File: gh,
			Old: "\t\tconn = p.Set(target, conn)\n", New: "\t\tp.Set(target, conn)\n",
			More: []repl{
				{"func (p *grpcConnectionPool) Set(target *route.Target, conn *grpc.ClientConn) *grpc.ClientConn {", "func (p *grpcConnectionPool) Set(target *route.Target, conn *grpc.ClientConn) {"},
				{setOld, "\tif cur := p.connections[key]; cur != nil && cur != conn {\n\t\tcur.Close()\n\t}\n"},
				{"\tp.connections[key] = conn\n\treturn conn\n}", "\tp.connections[key] = conn\n}"},
			}, Expect: "C16.P6"},
		mutant{Name: "P6: Get closes a pooled connection in TransientFailure and dials again", File: gh,
			Old:    "\tif conn != nil && conn.GetState() != connectivity.Shutdown {\n\t\treturn conn, nil\n\t}\n",
			New:    "\tif conn != nil && conn.GetState() == connectivity.TransientFailure {\n\t\tconn.Close()\n\t}\n\n\tif conn != nil && conn.GetState() != connectivity.Shutdown {\n\t\treturn conn, nil\n\t}\n",
			Expect: "C16.P6"},
		mutant{Name: "P6: replaced connection retired by a helper that closes it a little later", File: gh,
			Old: setOld, New: "\tif cur := p.connections[key]; cur != nil && cur != conn {\n\t\tp.retire(cur)\n\t}\n",
			More:   []repl{{"func (p *grpcConnectionPool) cleanup() {", "func (p *grpcConnectionPool) retire(old *grpc.ClientConn) {\n\tgo func() {\n\t\ttime.Sleep(p.cleanupInterval)\n\t\told.Close()\n\t}()\n}\n\nfunc (p *grpcConnectionPool) cleanup() {"}},
			Expect: "C16.P6"},
		mutant{Name: "P6: Set stores the new connection and closes the usable pooled one when it returns (deferred)", File: gh,
			Old: setOld, New: "\tif cur := p.connections[key]; cur != nil && cur != conn && cur.GetState() != connectivity.Shutdown {\n\t\tdefer cur.Close()\n\t}\n",
			Expect: "C16.P6"},
		mutant{Name: "P6: surplus connection closed by Set but handed to the call (result of Set ignored)", File: gh,
			Old: "\t\tconn = p.Set(target, conn)\n", New: "\t\tp.Set(target, conn)\n", Expect: "C16.P6"},
		mutant{Name: "P6: Set returns the connection it has just closed", File: gh,
			Old: "\t\tconn.Close()\n\t\treturn cur\n", New: "\t\tconn.Close()\n\t\treturn conn\n", Expect: "C16.P6"},
		// ---- the same idea done correctly
		mutant{Name: "benign: P6: Set replaces (and closes) only a pooled connection that is already shut down", File: gh,
			Old:    setOld,
			New:    "\tif cur := p.connections[key]; cur != nil && cur != conn {\n\t\tif cur.GetState() != connectivity.Shutdown {\n\t\t\tconn.Close()\n\t\t\treturn cur\n\t\t}\n\t\tcur.Close()\n\t}\n",
			Expect: ""},
		mutant{Name: "benign: P6: Set is a plain setter that reports the connection to use through a second helper", File: gh,
			Old: "\t\tconn = p.Set(target, conn)\n", New: "\t\tconn = p.keepOrUse(target, conn)\n",
			More:   []repl{{"func (p *grpcConnectionPool) cleanup() {", "func (p *grpcConnectionPool) keepOrUse(target *route.Target, conn *grpc.ClientConn) *grpc.ClientConn {\n\tuse := p.Set(target, conn)\n\tif use != conn {\n\t\tlog.Println(\"[DEBUG] grpc: reusing connection to\", makeGRPCTargetKey(target))\n\t}\n\treturn use\n}\n\nfunc (p *grpcConnectionPool) cleanup() {"}},
			Expect: ""},
		mutant{Name: "benign: P6: the surplus connection is closed by a helper, the pooled one is returned", File: gh,
			Old: "\t\tconn.Close()\n\t\treturn cur\n", New: "\t\tcloseSurplus(conn)\n\t\treturn cur\n",
			More:   []repl{{"func (p *grpcConnectionPool) cleanup() {", "func closeSurplus(c *grpc.ClientConn) {\n\tif err := c.Close(); err != nil {\n\t\tlog.Println(\"[WARN] grpc: closing surplus connection:\", err)\n\t}\n}\n\nfunc (p *grpcConnectionPool) cleanup() {"}},
			Expect: ""},
		mutant{Name: "benign: P6: a helper that closes the connection only when it fails, and the caller gives up then", File: gh,
			Old:    "\tif err == nil {\n\t\tconn = p.Set(target, conn)\n\t}\n\n\treturn conn, err\n",
			New:    "\tif err != nil {\n\t\treturn nil, err\n\t}\n\n\tif err := p.admit(target, conn); err != nil {\n\t\treturn nil, err\n\t}\n\n\treturn p.Set(target, conn), nil\n",
			More:   []repl{{"func (p *grpcConnectionPool) cleanup() {", "func (p *grpcConnectionPool) admit(target *route.Target, conn *grpc.ClientConn) error {\n\tif target.URL.Host == \"\" {\n\t\tconn.Close()\n\t\treturn fmt.Errorf(\"grpc: target without address\")\n\t}\n\treturn nil\n}\n\nfunc (p *grpcConnectionPool) cleanup() {"}},
			Expect: ""},
	)

	const dialOld = "grpc.WithDefaultCallOptions(grpc.CallCustomCodec(grpc_proxy.Codec()), grpc.MaxCallRecvMsgSize(p.cfg.Proxy.GRPCMaxRxMsgSize)),"
	addRound4("C16", "(D1) the message-size limits on the backend leg mirror the listener's: a send limit towards backends (grpc.MaxCallSendMsgSize), if there is one, is fed by the configuration value that limits what the listener accepts from callers (proxy.grpcmaxrxmsgsize, the argument of the listener's grpc.MaxRecvMsgSize) or is unlimited - what fabio sends to a backend is what it has just accepted from the caller, so any smaller limit (proxy.grpcmaxtxmsgsize, a constant) makes an accepted message undeliverable and the call fails with ResourceExhausted although the backend would have taken it - and the receive limit of backend connections (grpc.MaxCallRecvMsgSize) is taken from the configuration instead of gRPC's 4 MB default.", runC16D1,
		mutant{Name: "D1: proxy.grpcmaxtxmsgsize also applied to messages sent to backends (seeded/C16-8)", File: gh,
			Old: dialOld, New: "grpc.WithDefaultCallOptions(\n\t\t\tgrpc.CallCustomCodec(grpc_proxy.Codec()),\n\t\t\tgrpc.MaxCallRecvMsgSize(p.cfg.Proxy.GRPCMaxRxMsgSize),\n\t\t\tgrpc.MaxCallSendMsgSize(p.cfg.Proxy.GRPCMaxTxMsgSize),\n\t\t),",
			Expect: "C16.D1"},
		mutant{Name: "D1: send limit from the tx setting, built in a helper from a local", File: gh,
			Old: dialOld, New: "grpc.WithDefaultCallOptions(p.callOptions()...),",
			More:   []repl{{"func (p *grpcConnectionPool) cleanup() {", "func (p *grpcConnectionPool) callOptions() []grpc.CallOption {\n\trx, tx := p.cfg.Proxy.GRPCMaxRxMsgSize, p.cfg.Proxy.GRPCMaxTxMsgSize\n\treturn []grpc.CallOption{grpc.CallCustomCodec(grpc_proxy.Codec()), grpc.MaxCallRecvMsgSize(rx), grpc.MaxCallSendMsgSize(tx)}\n}\n\nfunc (p *grpcConnectionPool) cleanup() {"}},
			Expect: "C16.D1"},
		mutant{Name: "D1: constant 4 MB send limit towards backends", File: gh,
			Old: dialOld, New: "grpc.WithDefaultCallOptions(grpc.CallCustomCodec(grpc_proxy.Codec()), grpc.MaxCallRecvMsgSize(p.cfg.Proxy.GRPCMaxRxMsgSize), grpc.MaxCallSendMsgSize(4*1024*1024)),",
			Expect: "C16.D1"},
		mutant{Name: "D1: send limit kept in a pool field that the constructor fills from the tx setting", File: gh,
			Old: dialOld, New: "grpc.WithDefaultCallOptions(grpc.CallCustomCodec(grpc_proxy.Codec()), grpc.MaxCallRecvMsgSize(p.cfg.Proxy.GRPCMaxRxMsgSize), grpc.MaxCallSendMsgSize(p.maxSend)),",
			More: []repl{
				{"\tcfg             *config.Config\n}", "\tcfg             *config.Config\n\tmaxSend         int\n}"},
				{"\t\tcfg:             cfg,\n\t}", "\t\tcfg:             cfg,\n\t\tmaxSend:         cfg.Proxy.GRPCMaxTxMsgSize,\n\t}"},
			}, Expect: "C16.D1"},
		mutant{Name: "D1: receive limit of backend connections dropped (gRPC default of 4 MB applies)", File: gh,
			Old: dialOld, New: "grpc.WithDefaultCallOptions(grpc.CallCustomCodec(grpc_proxy.Codec())),", Expect: "C16.D1"},
		mutant{Name: "D1: receive limit of backend connections is a constant", File: gh,
			Old: dialOld, New: "grpc.WithDefaultCallOptions(grpc.CallCustomCodec(grpc_proxy.Codec()), grpc.MaxCallRecvMsgSize(4*1024*1024)),", Expect: "C16.D1"},
		// ---- the same idea done correctly
		mutant{Name: "benign: D1: send limit towards backends is the listener's receive limit", File: gh,
			Old: dialOld, New: "grpc.WithDefaultCallOptions(\n\t\t\tgrpc.CallCustomCodec(grpc_proxy.Codec()),\n\t\t\tgrpc.MaxCallRecvMsgSize(p.cfg.Proxy.GRPCMaxRxMsgSize),\n\t\t\tgrpc.MaxCallSendMsgSize(p.cfg.Proxy.GRPCMaxRxMsgSize),\n\t\t),",
			Expect: ""},
		mutant{Name: "benign: D1: send limit towards backends explicitly unlimited", File: gh,
			Old: dialOld, New: "grpc.WithDefaultCallOptions(grpc.CallCustomCodec(grpc_proxy.Codec()), grpc.MaxCallRecvMsgSize(p.cfg.Proxy.GRPCMaxRxMsgSize), grpc.MaxCallSendMsgSize(math.MaxInt32)),",
			More:   []repl{{"\t\"log\"\n", "\t\"log\"\n\t\"math\"\n"}},
			Expect: ""},
		mutant{Name: "benign: D1: limits kept in pool fields that the constructor fills from the rx setting", File: gh,
			Old: dialOld, New: "grpc.WithDefaultCallOptions(grpc.CallCustomCodec(grpc_proxy.Codec()), grpc.MaxCallRecvMsgSize(p.maxMsg), grpc.MaxCallSendMsgSize(p.maxMsg)),",
			More: []repl{
				{"\tcfg             *config.Config\n}", "\tcfg             *config.Config\n\tmaxMsg          int\n}"},
				{"\t\tcfg:             cfg,\n\t}", "\t\tcfg:             cfg,\n\t\tmaxMsg:          cfg.Proxy.GRPCMaxRxMsgSize,\n\t}"},
			}, Expect: ""},
		mutant{Name: "benign: D1: call options built by a helper from locals", File: gh,
			Old: dialOld, New: "grpc.WithDefaultCallOptions(p.callOptions()...),",
			More:   []repl{{"func (p *grpcConnectionPool) cleanup() {", "func (p *grpcConnectionPool) callOptions() []grpc.CallOption {\n\trx := p.cfg.Proxy.GRPCMaxRxMsgSize\n\treturn []grpc.CallOption{grpc.CallCustomCodec(grpc_proxy.Codec()), grpc.MaxCallRecvMsgSize(rx)}\n}\n\nfunc (p *grpcConnectionPool) cleanup() {"}},
			Expect: ""},
	)
}

// ---- C16.P6 -------------------------------------------------------------------------------------------------------------

// c16p6region: the request path - the director functions and everything they can run (calls, deferred calls, goroutines,
// closures, collaborators behind a small interface), across the repository packages that import gRPC. Deeper than
// c16region: director -> Get -> newConnection -> Set -> locking wrapper -> closure is five steps.
func c16p6region(roots ...*ssa.Function) []*ssa.Function {
	var out []*ssa.Function
	seen := map[*ssa.Function]bool{}
	var add func(f *ssa.Function, d int)
	add = func(f *ssa.Function, d int) {
		if f == nil || seen[f] || len(f.Blocks) == 0 || !isRepoFn(f) {
			return
		}
		seen[f] = true
		out = append(out, f)
		if d >= 7 {
			return
		}
		home := rootPkg(f)
		eachInstr(f, func(i ssa.Instruction) {
			for _, op := range i.Operands(nil) {
				if op == nil || *op == nil {
					continue
				}
				var g *ssa.Function
				switch x := (*op).(type) {
				case *ssa.Function:
					g = unwrap(x)
				case *ssa.MakeClosure:
					if fn, ok := x.Fn.(*ssa.Function); ok {
						g = unwrap(fn)
					}
				}
				if g != nil && (rootPkg(g) == home || c16grpcPkg(rootPkg(g))) {
					add(g, d+1)
				}
			}
			if cc := callCommon(i); cc != nil {
				if cc.IsInvoke() {
					for _, g := range c16invokeTargets(cc) {
						add(g, d+1)
					}
				} else if cc.StaticCallee() == nil {
					for _, g := range c16funcsOf(cc.Value, 0) { // fn(conns) in a locking wrapper: the closures handed to it
						add(g, d+1)
					}
				}
			}
		})
	}
	for _, r := range roots {
		add(r, 0)
	}
	return out
}

// c16p6closeRecv: i closes a client connection (call, defer or go of (*grpc.ClientConn).Close); the connection.
func c16p6closeRecv(i ssa.Instruction) ssa.Value {
	cc := callCommon(i)
	if cc == nil || !c16p5closes(i) || cc.IsInvoke() || len(cc.Args) == 0 {
		return nil
	}
	return cc.Args[0]
}

// c16p6poolRead: x is what a read of the pool table by key yields (the connection, or the entry that holds it).
func c16p6poolRead(x ssa.Value) bool {
	lk, ok := x.(*ssa.Lookup)
	return ok && c16isConnMap(lk.X)
}

// c16p6isShutdown: k is the constant connectivity.Shutdown.
func c16p6isShutdown(v ssa.Value) bool {
	k, ok := v.(*ssa.Const)
	return ok && k.Value != nil && strings.HasSuffix(typeStr(k.Type()), "connectivity.State") && k.Int64() == 4
}

// c16p6knownShutdown: at instruction at the connection conn is known to be shut down: a branch fact
// conn.GetState() == connectivity.Shutdown holds, or the verdict of a repository predicate over conn that compares its
// state with Shutdown (isUsable(conn); the polarity of such a predicate is not judged).
func c16p6knownShutdown(at ssa.Instruction, conn ssa.Value) bool {
	same := samePath(conn)
	stateOf := func(v ssa.Value) bool {
		call, ok := v.(*ssa.Call)
		return ok && strings.HasSuffix(calleeName(&call.Call), "grpc.ClientConn).GetState") && len(call.Call.Args) == 1 && same(call.Call.Args[0])
	}
	for _, ft := range c16factsAt(at.Block(), 0) {
		switch x := ft.Cond.(type) {
		case *ssa.BinOp:
			if !(x.Op == token.EQL && ft.Truth || x.Op == token.NEQ && !ft.Truth) {
				continue
			}
			if c16p6isShutdown(x.X) && stateOf(x.Y) || c16p6isShutdown(x.Y) && stateOf(x.X) {
				return true
			}
		case *ssa.Call:
			sc := x.Call.StaticCallee()
			if sc == nil || !isRepoFn(sc) || typeStr(x.Type().Underlying()) != "bool" {
				continue
			}
			about := false
			for _, a := range x.Call.Args {
				about = about || same(a)
			}
			if !about {
				continue
			}
			for _, h := range c16syncRegion(unwrap(sc)) {
				if fnHas(h, func(j ssa.Instruction) bool {
					b, ok := j.(*ssa.BinOp)
					return ok && (c16p6isShutdown(b.X) || c16p6isShutdown(b.Y))
				}) {
					return true
				}
			}
		}
	}
	return false
}

// c16p6eachReturn walks the control flow forward from the instruction after from and calls visit for every return that can
// be reached; val resolves a value on the path taken so far: a phi stands for the operand of the edge the path came in
// through, a load of a local cell (the result cell of a function with a deferred call, a variable a closure captures)
// for what the path last stored into it. The walk stops when visit returns true.
func c16p6eachReturn(from ssa.Instruction, visit func(r *ssa.Return, val func(ssa.Value) ssa.Value) bool) bool {
	return c16p6eachReturnVia(from, nil, visit)
}

// c16p6eachReturnVia: c16p6eachReturn over the paths that only take edges (block b -> its k-th successor) take admits.
func c16p6eachReturnVia(from ssa.Instruction, take func(b *ssa.BasicBlock, k int) bool, visit func(r *ssa.Return, val func(ssa.Value) ssa.Value) bool) bool {
	type edge struct{ a, b *ssa.BasicBlock }
	seen := map[edge]bool{}
	type envT map[ssa.Value]ssa.Value // phi, local cell or load of one -> its value on this path
	resolver := func(env envT) func(ssa.Value) ssa.Value {
		return func(v ssa.Value) ssa.Value {
			for k := 0; k < 8; k++ {
				if ct, ok := v.(*ssa.ChangeType); ok {
					v = ct.X
					continue
				}
				if w, ok := env[v]; ok && w != v {
					v = w
					continue
				}
				break
			}
			return v
		}
	}
	var walk func(b *ssa.BasicBlock, idx int, env envT) bool
	walk = func(b *ssa.BasicBlock, idx int, env envT) bool {
		val := resolver(env)
		for k := idx; k < len(b.Instrs); k++ {
			switch x := b.Instrs[k].(type) {
			case *ssa.Store:
				if a, ok := x.Addr.(*ssa.Alloc); ok {
					env[a] = val(x.Val)
				}
			case *ssa.UnOp:
				if a, ok := x.X.(*ssa.Alloc); ok && x.Op == token.MUL {
					if w, known := env[a]; known {
						env[x] = w
					}
				}
			case *ssa.Return:
				if visit(x, val) {
					return true
				}
			}
		}
		for sk, s := range b.Succs {
			if seen[edge{b, s}] || take != nil && !take(b, sk) {
				continue
			}
			seen[edge{b, s}] = true
			pi := -1
			for k, p := range s.Preds {
				if p == b {
					pi = k
				}
			}
			env2 := make(envT, len(env)+2)
			for k, v := range env {
				env2[k] = v
			}
			for _, in := range s.Instrs {
				phi, ok := in.(*ssa.Phi)
				if !ok {
					break
				}
				if pi >= 0 && pi < len(phi.Edges) {
					env2[phi] = val(phi.Edges[pi])
				}
			}
			if walk(s, 0, env2) {
				return true
			}
		}
		return false
	}
	if from.Block() == nil {
		return false
	}
	return walk(from.Block(), instrIndex(from)+1, envT{})
}

// c16p6goesOn: after the close at site its function can still return normally: a return without an error result, or
// with a nil error (a helper that closes the connection because it fails, and says so, is not handing it on).
func c16p6goesOn(site ssa.Instruction) bool {
	return c16p6eachReturn(site, func(r *ssa.Return, val func(ssa.Value) ssa.Value) bool {
		for _, res := range r.Results {
			if c16isErrT(res.Type()) && !isNilConst(val(res)) {
				return false
			}
		}
		return true
	})
}

// c16p6boolSignal: the close at site sits in a helper that reports what it did with a bool: every return that can follow
// the close (and does not carry a non-nil error) gives the same constant for the helper's only bool result. k is that
// constant, idx the index of the result.
func c16p6boolSignal(site ssa.Instruction) (k bool, idx int, ok bool) {
	f := site.Parent()
	if f == nil {
		return false, -1, false
	}
	idx = -1
	res := f.Signature.Results()
	for j := 0; j < res.Len(); j++ {
		if typeStr(res.At(j).Type().Underlying()) == "bool" {
			if idx >= 0 {
				return false, -1, false
			}
			idx = j
		}
	}
	if idx < 0 {
		return false, -1, false
	}
	n, same := 0, true
	c16p6eachReturn(site, func(r *ssa.Return, val func(ssa.Value) ssa.Value) bool {
		for _, x := range r.Results {
			if c16isErrT(x.Type()) && !isNilConst(val(x)) {
				return false
			}
		}
		if idx >= len(r.Results) {
			same = false
			return false
		}
		cst, isC := val(r.Results[idx]).(*ssa.Const)
		if !isC || cst.Value == nil {
			same = false
			return false
		}
		b := constant.BoolVal(cst.Value)
		if n > 0 && b != k {
			same = false
		}
		k = b
		n++
		return false
	})
	return k, idx, same && n > 0
}

// c16p6closesOf: the closes of connection v that instruction s performs: s itself, or a close in what s runs
// synchronously (callee, deferred callee, closure handed to a wrapper) whose connection is v there (the parameter v is
// passed as, a variable the closure captures).
func c16p6closesOf(s ssa.Instruction, v ssa.Value) []ssa.Instruction {
	if r := c16p6closeRecv(s); r != nil {
		if r == v {
			return []ssa.Instruction{s}
		}
		return nil
	}
	if _, isGo := s.(*ssa.Go); isGo {
		return nil
	}
	var out []ssa.Instruction
	seen := map[*ssa.Function]bool{}
	for _, g := range c16syncCallees(s) {
		for _, h := range c16syncRegion(g) {
			if seen[h] || h == s.Parent() {
				continue
			}
			seen[h] = true
			eachInstr(h, func(j ssa.Instruction) {
				r := c16p6closeRecv(j)
				if r == nil {
					return
				}
				if derives(r, func(x ssa.Value) bool { return x == v }) {
					out = append(out, j)
				}
			})
		}
	}
	return out
}

func runC16P6(c *Ctx) {
	R := c16resolve(c)
	if len(R.directors) == 0 {
		c.undecided("C16.P6", "anchor|proxy director", "no function of the repository returns (context.Context, *grpc.ClientConn, error): the request path of the connection pool cannot be found")
		return
	}
	scope := c16p6region(R.directors...)
	nIns := 0
	eachInstrOf(scope, func(f *ssa.Function, i ssa.Instruction) {
		if mu, ok := i.(*ssa.MapUpdate); ok && c16isConnMap(mu.Map) {
			nIns++
		}
	})
	// the rule looks at the closes on the request path; it has found the pool when it has found where the request path
	// publishes a connection
	c.atLeast("C16.P6", "inserts into the pool table on the request path (director -> pool)", nIns, 1)

	// (a) a connection read from the pool is not closed
	eachInstrOf(scope, func(f *ssa.Function, i ssa.Instruction) {
		recv := c16p6closeRecv(i)
		if recv == nil {
			return
		}
		pooled := derives(recv, c16p6poolRead)
		c.check("C16.P6", fnKey(f)+"|connection closed on the request path is not one read from the pool", i.Pos(), !pooled || c16p6knownShutdown(i, recv),
			"a call closes a connection that it read from the pool table (not known to be shut down): pooled connections are shared - two first calls to one backend both miss the pool and dial (Get drops the read lock first), the first stores its connection and opens its stream on it, the second then closes that connection, and the first call fails with Canceled 'grpc: the client connection is closing' although the backend answered OK; on the request path only the connection the call dialled itself (the surplus one) may be closed, pooled ones are closed by the janitor once their target has left the table")
	})

	// (b) a connection that was closed is not handed to the call
	for _, f := range scope {
		ff := f
		eachInstr(f, func(s ssa.Instruction) {
			cc := callCommon(s)
			if cc == nil {
				return
			}
			if _, isGo := s.(*ssa.Go); isGo {
				return
			}
			var cands []ssa.Value
			if r := c16p6closeRecv(s); r != nil {
				cands = append(cands, r)
			} else {
				for _, a := range cc.Args {
					if c16isConnT(a.Type()) && !isNilConst(a) {
						cands = append(cands, a)
					}
				}
			}
			for _, v := range cands {
				live := false
				// a helper that closes the connection and says so with a bool (ok / admitted / kept): the paths of the
				// caller on which the helper's verdict is the other one are not paths after a close
				sigK, sigIdx, sigN, sigOK := false, -1, 0, true
				for _, site := range c16p6closesOf(s, v) {
					if site == s {
						live, sigOK = true, false
						continue
					}
					if !c16p6goesOn(site) {
						continue
					}
					live = true
					k, idx, ok := c16p6boolSignal(site)
					sc := cc.StaticCallee()
					if !ok || sc == nil || site.Parent() != unwrap(sc) || unwrap(sc) != sc || sigN > 0 && (k != sigK || idx != sigIdx) {
						sigOK = false
					}
					sigK, sigIdx = k, idx
					sigN++
				}
				if !live {
					continue
				}
				var take func(b *ssa.BasicBlock, k int) bool
				if call, isCall := s.(*ssa.Call); isCall && sigOK && sigN > 0 {
					verdict := func(x ssa.Value) bool {
						if x == ssa.Value(call) {
							return call.Call.Signature().Results().Len() == 1
						}
						e, isE := x.(*ssa.Extract)
						return isE && e.Tuple == ssa.Value(call) && e.Index == sigIdx
					}
					take = func(b *ssa.BasicBlock, k int) bool {
						if len(b.Instrs) == 0 {
							return true
						}
						iff, isIf := b.Instrs[len(b.Instrs)-1].(*ssa.If)
						if !isIf {
							return true
						}
						cond, neg := iff.Cond, false
						for {
							u, isNot := cond.(*ssa.UnOp)
							if !isNot || u.Op != token.NOT {
								break
							}
							cond, neg = u.X, !neg
						}
						if !verdict(cond) {
							return true
						}
						// Succs[0] is taken when the condition holds, i.e. when the helper's verdict is !neg
						if sigK == !neg {
							return k == 0
						}
						return k == 1
					}
				}
				var bad *ssa.Return
				c16p6eachReturnVia(s, take, func(r *ssa.Return, val func(ssa.Value) ssa.Value) bool {
					for _, res := range r.Results {
						if c16isConnT(res.Type()) && val(res) == val(v) {
							bad = r
							return true
						}
					}
					return false
				})
				pos := s.Pos()
				if bad != nil {
					pos = bad.Pos()
				}
				c.check("C16.P6", fnKey(ff)+"|connection returned to the call is not one that was just closed", pos, bad == nil,
					"the connection is closed (here or by the helper it is handed to, when that finds a usable connection already pooled) and is nevertheless the one returned to the call: the call opens its stream on a closed connection and fails with Canceled 'grpc: the client connection is closing' instead of being proxied - the connection to use is the one that stays in the pool")
			}
		})
	}
}

// ---- C16.D1 -------------------------------------------------------------------------------------------------------------

// c16d1fields: the config.Proxy fields the value may come from - directly, through locals and helpers (derives), or
// through a field of a repository struct that is filled from one somewhere in the repository (the pool keeping the limit
// instead of the whole configuration).
func c16d1fields(c *Ctx, v ssa.Value) map[string]bool {
	out := map[string]bool{}
	type fkey struct {
		t   string
		idx int
	}
	seenF := map[fkey]bool{}
	var from func(v ssa.Value, d int)
	from = func(v ssa.Value, d int) {
		var via []fkey
		derives(v, func(x ssa.Value) bool {
			if fv, isF := x.(*ssa.Field); isF {
				// the configuration section (or the struct that keeps the limit) held by value: pc := cfg.Proxy; pc.GRPCMax...
				if namedIs(fv.X.Type(), "config.Proxy") {
					out[fieldName(fv.X.Type(), fv.Field)] = true
				} else {
					via = append(via, fkey{typeStr(fv.X.Type()), fv.Field})
				}
				return false
			}
			fa, ok := x.(*ssa.FieldAddr)
			if !ok {
				return false
			}
			if namedIs(fa.X.Type(), "config.Proxy") {
				out[fieldName(fa.X.Type(), fa.Field)] = true
			} else if _, isAlloc := fa.X.(*ssa.Alloc); !isAlloc {
				via = append(via, fkey{typeStr(deref(fa.X.Type())), fa.Field})
			}
			return false
		})
		if d >= 2 {
			return
		}
		for _, k := range via {
			if seenF[k] || !strings.HasPrefix(k.t, repoMod) || strings.HasPrefix(k.t, repoMod+"/config.") {
				continue
			}
			seenF[k] = true
			for _, g := range c.AllFns {
				if !isRepoFn(g) {
					continue
				}
				eachInstr(g, func(i ssa.Instruction) {
					st, ok := i.(*ssa.Store)
					if !ok {
						return
					}
					fa2, ok := st.Addr.(*ssa.FieldAddr)
					if ok && fa2.Field == k.idx && typeStr(deref(fa2.X.Type())) == k.t {
						from(st.Val, d+1)
					}
				})
			}
		}
	}
	from(v, 0)
	return out
}

// c16d1dialFn: g is one of gRPC's functions that make a client connection.
func c16d1dialFn(g *ssa.Function) bool {
	if g == nil || g.Pkg == nil || g.Pkg.Pkg.Path() != c16grpc || g.Signature.Recv() != nil {
		return false
	}
	switch g.Name() {
	case "Dial", "DialContext", "NewClient":
		return true
	}
	return false
}

func runC16D1(c *Ctx) {
	const rxDefault, txDefault = "GRPCMaxRxMsgSize", "GRPCMaxTxMsgSize"
	// the configuration values behind the listener's two limits (W1 checks that they are the right ones)
	rx, tx := map[string]bool{}, map[string]bool{}
	var sends, recvs []*ssa.Call
	var dials []token.Pos // where backend connections are made: a call of a gRPC dial function, or its value taken (dialer seam)
	for _, f := range c.AllFns {
		if !isRepoFn(f) {
			continue
		}
		eachInstr(f, func(i ssa.Instruction) {
			// the dial function kept as a value (a replaceable dialer in a field, a variable, an argument) still dials
			for _, op := range i.Operands(nil) {
				if op == nil || *op == nil {
					continue
				}
				if g, isFn := (*op).(*ssa.Function); isFn && c16d1dialFn(g) {
					if cc := callCommon(i); cc == nil || cc.Value != g {
						dials = append(dials, i.Pos())
					}
				}
			}
			call, ok := i.(*ssa.Call)
			if !ok || call.Call.IsInvoke() {
				return
			}
			n := calleeName(&call.Call)
			if !strings.HasPrefix(n, c16grpc+".") {
				return
			}
			switch strings.TrimPrefix(n, c16grpc+".") {
			case "MaxRecvMsgSize", "MaxMsgSize":
				for k := range c16d1fields(c, call.Call.Args[0]) {
					rx[k] = true
				}
			case "MaxSendMsgSize":
				for k := range c16d1fields(c, call.Call.Args[0]) {
					tx[k] = true
				}
			case "MaxCallSendMsgSize":
				sends = append(sends, call)
			case "MaxCallRecvMsgSize", "WithMaxMsgSize":
				recvs = append(recvs, call)
			case "Dial", "DialContext", "NewClient":
				dials = append(dials, call.Pos())
			}
		})
	}
	// ... or in a package-level variable (var dial = grpc.DialContext): the store sits in the package initialiser
	for _, sts := range gGlobalStores {
		for _, st := range sts {
			if g, isFn := st.Val.(*ssa.Function); isFn && c16d1dialFn(g) && isRepoFn(st.Parent()) {
				dials = append(dials, st.Pos())
			}
		}
	}
	if len(rx) == 0 {
		rx[rxDefault] = true
	}
	if len(tx) == 0 {
		tx[txDefault] = true
	}
	if len(dials) == 0 {
		c.undecided("C16.D1", "anchor|backend connections", "no call of grpc.Dial / DialContext / NewClient in the repository: where backend connections are made cannot be found")
		return
	}
	unlimited := func(v ssa.Value) bool {
		n, ok := constInt(v)
		return ok && n >= math.MaxInt32
	}
	anyOf := func(have, want map[string]bool) bool {
		for k := range have {
			if want[k] {
				return true
			}
		}
		return false
	}
	for _, call := range sends {
		f := call.Parent()
		arg := call.Call.Args[0]
		have := c16d1fields(c, arg)
		_, isConst := constInt(arg)
		switch {
		case unlimited(arg) || anyOf(have, rx):
			c.check("C16.D1", fnKey(f)+"|send limit towards backends admits what the listener accepted", call.Pos(), true, "")
		case len(have) == 0 && !isConst:
			c.undecided("C16.D1", fnKey(f)+"|send limit towards backends admits what the listener accepted", "grpc.MaxCallSendMsgSize is given a value whose origin cannot be traced to the configuration: it must be at least the listener's receive limit (proxy.grpcmaxrxmsgsize)")
		default:
			c.check("C16.D1", fnKey(f)+"|send limit towards backends admits what the listener accepted", call.Pos(), false,
				"messages sent to a backend are limited by a value other than the listener's receive limit (proxy.grpcmaxrxmsgsize): what fabio sends to a backend is what it has just accepted from the caller, which proxy.grpcmaxrxmsgsize governs (proxy.grpcmaxtxmsgsize is the limit for replies to callers); with rx raised above this limit a caller message of a size in between is accepted but never delivered - the backend call is cancelled and the caller gets Internal/ResourceExhausted 'trying to send message larger than max' instead of the backend's reply, the backend never sees that message nor the ones after it")
		}
	}
	nRecv := 0
	for _, call := range recvs {
		have := c16d1fields(c, call.Call.Args[0])
		if anyOf(have, rx) || anyOf(have, tx) || unlimited(call.Call.Args[0]) {
			nRecv++
		}
	}
	c.check("C16.D1", "proxy|receive limit of backend connections comes from the configuration", dials[0], nRecv > 0,
		"no grpc.MaxCallRecvMsgSize fed by proxy.grpcmaxrxmsgsize (or proxy.grpcmaxtxmsgsize) is built for the backend connections: gRPC's default of 4 MB then applies to what backends send, and a reply that the operator's limits allow is refused with ResourceExhausted instead of being delivered to the caller")
}
