package main

import (
	"bufio"
	"bytes"
	"fmt"
	"os"
	"os/exec"
	"path/filepath"
	"regexp"
	"strconv"
	"strings"
)

func init() {
	register(&propDef{
		ID:      "C10",
		Level:   "proof",
		Explain: "Proof, for the stated clauses only, that the hand-written ClientHello handling cannot read out of bounds or panic and never buffers more than the first TLS record. The code is found by ROLE in the region of (*SNIProxy).ServeTCP, not by function name: parser roots = the same-package functions with a plain-data signature that the handler functions call with bytes captured before the route lookup (today clientHelloBufferSize and readServerName); a plain-data function that looks at no byte itself but only cuts its input with constant bounds (also out of a small wrapper struct) and hands it on to one such function, returning its results as they are, is plumbing between handler and parser: a handler function judged by M3, and the function it hands on to is the root; parser region = the roots and every function of the package they call, however the parsing is cut into helpers. (M1) every index and slice expression of the parser region is in bounds: either the Go compiler's prove pass eliminates its check (go build -gcflags='-l -d=ssa/check_bce/debug=1' reports every check it could NOT eliminate; obligations are counted from the AST and matched by bracket position, an unattributable report taints its line), or - residual checks, typically in a helper whose parameter is what is indexed - the checker's own difference-bound prover shows index < len(operand) from the length facts that dominate the instruction: branch facts, len(x[a:b]) = b-a, len(make(n)) = n, the differences between the arguments proved at EVERY call site of a helper all of whose callers are static, the bounds of helper results on their returns - constant and relative to the helper's parameters (len(result) = n for a cursor's next(n)), leaving out the returns the caller's knowledge excludes (error certainly non-nil on the err == nil edge, flag false on the ok edge) and seeing through helpers that forward an inner call's results; the differences between two results of one call (`recLen, msgLen, err := parseHeader(b)`, also a result the caller discards) proved at every compatible return; what a helper whose verdict is known here (error nil, flag true / false) established about its arguments on the returns compatible with that verdict (`if err := h.validate(); err != nil { return }`: parameters are immutable, what was tested about them on the way to `return nil` holds for the arguments); integer and slice fields of struct VALUES passed, returned and stored whole (a header struct), and the fields behind a pointer parameter / a pointer result as they are when the function is entered / the constructor returns, as long as nothing may have written them - and, for values that live in memory (a cursor object `type c []byte` / struct{b []byte} with methods, a captured variable, the field of a connection object that holds the captured bytes), the values a load can observe: found by walking backwards over every path to a store of the same location, an earlier load of it, the creation of the object, through calls (by the same walk from their compatible returns) and up to every call site, and given up as soon as anything in between MAY write the location by the type-based alias rules of c10_mem.go; there is no table of accepted expressions; (M2) the region contains no other panic source: no map write, explicit panic, go/defer/send, type assertion without comma-ok, recursion, call outside the region except a list of total library functions (binary.BigEndian.UintN needs len >= N/8 proved; the length-checked reading methods of x/crypto/cryptobyte.String count as total), no division or signed shift by a value not proved non-zero / non-negative, no make with an unproved size, no dereference of a pointer that is not an address taken in place, tested, or non-nil at every call site; (M3) what the handler functions themselves cut out of the captured bytes (data[5:]) is in bounds by the same two means - the prover uses the size function's bound on its nil-error returns (result >= 10); (S1) on every nil-error return of the size function result - recordLength <= 5 and result <= 16389, with recordLength any value that is the big-endian integer of bytes 3-4 of the function's input (shifts, encoding/binary, a helper computing one of these, a result of a helper or a field of the header struct a helper returns - by value or behind a pointer - that was assembled from them, also after the header has been converted or copied into a fixed-size array that is only read afterwards), the input being the peeked bytes from their first byte on, wrap-aware (a uint16 recordLength-4 is not recordLength-4); (S2) the capture buffer is make([]byte, n) with n the size function's result on its err == nil edge (through helper parameters and forwarding helpers), the one consuming read that can execute before a route lookup is io.ReadFull into the whole of it, every route lookup (the Lookup callback, or any dynamic call of type func(string) *route.Target) takes a result of a parser call (a result, a field of a result struct, a field of a struct the handler passed in) on the edge where that call reported success and the name is not empty (branch facts are read through a verdict kept in a variable, boolean or not: a log line, a reason code or an error compared with a constant is resolved on each edge of the merge that feeds it). NOT covered by this claim: equality of the extracted name with crypto/tls's on well-formed hellos (semantic equivalence of two parsers) - of that clause only the two necessary conditions F1 and N1 stated below are checked.",
		Run:     runC10,
		Trusted: []string{"the Go compiler's prove pass is sound (a bounds check it eliminates cannot fail)", "the checker's difference-bound prover in c10_prove.go (Bellman-Ford over branch facts, wrap-aware SSA definitions, slice-length definitions, call-site and return summaries)", "every call of an unexported function that is not used as a value is a static call in a non-test file of the repository", "int is 64 bits wide and no slice is longer than 2^56 elements", "io.ReadFull fills the whole buffer or returns an error", "(*bufio.Reader).Peek(n) returns exactly n bytes when its error is nil", "the reading methods of golang.org/x/crypto/cryptobyte.String never panic", "type-based aliasing: no package unsafe / reflection writes and no data race on the cursor and connection objects of one connection between a store and the loads that rely on it (c10_mem.go)"},
		Mutants: append([]mutant{
			{Name: "delete one length test in unmarshal", File: "proxy/tcp/tls_clienthello.go", Old: "\t\tif len(data) < 4 {\n\t\t\treturn false\n\t\t}\n", New: "", Expect: "C10.M1"},
			{Name: "session id length not checked against the data", File: "proxy/tcp/tls_clienthello.go", Old: "if sessionIdLen > 32 || len(data) < 39+sessionIdLen {", New: "if sessionIdLen > 32 {", Expect: "C10.M1"},
			{Name: "name length test off by one", File: "proxy/tcp/tls_clienthello.go", Old: "\t\t\t\tif len(d) < nameLen {", New: "\t\t\t\tif len(d)+1 < nameLen {", Expect: "C10.M1"},
			{Name: "record length limit raised", File: "proxy/tcp/tls_clienthello.go", Old: "if recordLength <= 0 || recordLength > 16384 {", New: "if recordLength <= 0 || recordLength > 65535 {", Expect: "C10.S1"},
			{Name: "handshake may exceed the record", File: "proxy/tcp/tls_clienthello.go", Old: "handshakeLength > recordLength-4", New: "handshakeLength > recordLength", Expect: "C10.S1"},
			{Name: "zero-length handshake accepted", File: "proxy/tcp/tls_clienthello.go", Old: "if handshakeLength <= 0 || ", New: "if handshakeLength < -5 || ", Expect: "C10.M3"},
			{Name: "buffer one byte larger than computed", File: "proxy/tcp/sni_proxy.go", Old: "data := make([]byte, bufferSize)", New: "data := make([]byte, bufferSize+1)", Expect: "C10.S2"},
			{Name: "route looked up although parsing failed", File: "proxy/tcp/sni_proxy.go", Old: "\thost, ok := readServerName(data[5:])\n\tif !ok {", New: "\thost, ok := readServerName(data[5:])\n\tif !ok && host == \"x\" {", Expect: "C10.S2"},
			{Name: "a division sneaks into the parser", File: "proxy/tcp/tls_clienthello.go", Old: "\tcipherSuiteLen := int(data[0])<<8 | int(data[1])\n", New: "\tcipherSuiteLen := int(data[0])<<8 | int(data[1])\n\tif 100/cipherSuiteLen > 3 {\n\t\treturn false\n\t}\n", Expect: "C10.M2"},
			{Name: "benign: hoist len(data) into a local", File: "proxy/tcp/tls_clienthello.go", Old: "\tif len(data) < 42 {\n\t\treturn false\n\t}", New: "\tn := len(data)\n\tif n < 42 {\n\t\treturn false\n\t}", Expect: ""},
			// ---- robustness: behaviour-preserving rewrites that move, rename or re-spell the parsing code (must stay silent)
			{Name: "benign: big-endian decode moved into a cursor helper (bounds proved from the lengths at both call sites)", File: "proxy/tcp/tls_clienthello.go",
				Old: "\tcipherSuiteLen := int(data[0])<<8 | int(data[1])\n", New: "\tcipherSuiteLen := be16(data)\n", Expect: "",
				More: []repl{{"\t\tlength := int(data[2])<<8 | int(data[3])\n", "\t\tlength := be16(data[2:])\n"},
					{"type clientHelloMsg struct {", "func be16(b []byte) int { return int(b[0])<<8 | int(b[1]) }\n\ntype clientHelloMsg struct {"}}},
			{Name: "benign: record length read by a helper of the size function", File: "proxy/tcp/tls_clienthello.go",
				Old: "\trecordLength := int(data[3])<<8 | int(data[4])\n", New: "\trecordLength := recLen(data)\n", Expect: "",
				More: []repl{{"// readServerName returns the server name", "func recLen(hdr []byte) int { return int(hdr[3])<<8 | int(hdr[4]) }\n\n// readServerName returns the server name"}}},
			{Name: "benign: encoding/binary instead of shifts in the parser", File: "proxy/tcp/tls_clienthello.go",
				Old: "\tcipherSuiteLen := int(data[0])<<8 | int(data[1])\n", New: "\tcipherSuiteLen := int(binary.BigEndian.Uint16(data))\n", Expect: "",
				More: []repl{{"import \"errors\"", "import (\n\t\"encoding/binary\"\n\t\"errors\"\n)"}}},
			{Name: "benign: extension switch written as if", File: "proxy/tcp/tls_clienthello.go",
				Old: "\t\tswitch extension {\n\t\tcase extensionServerName:\n", New: "\t\tif extension == extensionServerName {\n", Expect: ""},
			{Name: "benign: message struct as a local value instead of new()", File: "proxy/tcp/tls_clienthello.go",
				Old: "\tm := new(clientHelloMsg)\n\tif !m.unmarshal(", New: "\tvar m clientHelloMsg\n\tif !m.unmarshal(", Expect: ""},
			{Name: "benign: extension loop moved into a method of the message", File: "proxy/tcp/tls_clienthello.go",
				Old: "\tfor len(data) != 0 {\n\t\tif len(data) < 4 {", New: "\treturn m.extensions(data)\n}\n\nfunc (m *clientHelloMsg) extensions(data []byte) bool {\n\tfor len(data) != 0 {\n\t\tif len(data) < 4 {", Expect: ""},
			{Name: "benign: readServerName inlined into the handler", File: "proxy/tcp/sni_proxy.go",
				Old: "\thost, ok := readServerName(data[5:])\n\tif !ok {", New: "\tm := new(clientHelloMsg)\n\tok := m.unmarshal(data[5:])\n\thost := m.serverName\n\tif !ok {", Expect: ""},
			{Name: "benign: route lookup behind a method of the proxy", File: "proxy/tcp/sni_proxy.go",
				Old: "\tt := p.Lookup(host)\n", New: "\tt := p.lookupHost(host)\n", Expect: "",
				More: []repl{{"func (p *SNIProxy) ServeTCP(in net.Conn) error {", "func (p *SNIProxy) lookupHost(name string) *route.Target { return p.Lookup(name) }\n\nfunc (p *SNIProxy) ServeTCP(in net.Conn) error {"}}},
			{Name: "benign: the buffer spelled data[:] and the record header length named", File: "proxy/tcp/sni_proxy.go",
				Old: "_, err = io.ReadFull(tlsReader, data)", New: "_, err = io.ReadFull(tlsReader, data[:])", Expect: "",
				More: []repl{{"readServerName(data[5:])", "readServerName(data[recordHeader:])"}, {"func (p *SNIProxy) ServeTCP(in net.Conn) error {", "const recordHeader = 5\n\nfunc (p *SNIProxy) ServeTCP(in net.Conn) error {"}}},
			{Name: "benign: capture moved into a helper that receives the size (buffer, read and size call in three functions)", File: "proxy/tcp/sni_proxy.go",
				Old: "\tdata := make([]byte, bufferSize)\n\t_, err = io.ReadFull(tlsReader, data)\n", New: "\tdata, err := capture(tlsReader, bufferSize)\n", Expect: "",
				More: []repl{{"func (p *SNIProxy) ServeTCP(in net.Conn) error {", "func capture(r *bufio.Reader, n int) ([]byte, error) {\n\tbuf := make([]byte, n)\n\tif _, err := io.ReadFull(r, buf); err != nil {\n\t\treturn nil, err\n\t}\n\treturn buf, nil\n}\n\nfunc (p *SNIProxy) ServeTCP(in net.Conn) error {"}}},
			{Name: "benign: slicing and parsing behind a method of the proxy that forwards the parser's results", File: "proxy/tcp/sni_proxy.go",
				Old: "\thost, ok := readServerName(data[5:])\n", New: "\thost, ok := p.sni(data)\n", Expect: "",
				More: []repl{{"func (p *SNIProxy) ServeTCP(in net.Conn) error {", "func (p *SNIProxy) sni(hello []byte) (string, bool) { return readServerName(hello[5:]) }\n\nfunc (p *SNIProxy) ServeTCP(in net.Conn) error {"}}},
			{Name: "benign: size function called through a handler helper that forwards its results", File: "proxy/tcp/sni_proxy.go",
				Old: "\tbufferSize, err := clientHelloBufferSize(tlsHeaders)\n", New: "\tbufferSize, err := sizeOf(tlsHeaders, p)\n", Expect: "",
				More: []repl{{"func (p *SNIProxy) ServeTCP(in net.Conn) error {", "func sizeOf(hdr []byte, _ *SNIProxy) (int, error) {\n\tn, err := clientHelloBufferSize(hdr)\n\tif err != nil {\n\t\treturn 0, err\n\t}\n\treturn n, nil\n}\n\nfunc (p *SNIProxy) ServeTCP(in net.Conn) error {"}}},
			{Name: "forwarding helper adds a byte to the size", File: "proxy/tcp/sni_proxy.go",
				Old: "\tbufferSize, err := clientHelloBufferSize(tlsHeaders)\n", New: "\tbufferSize, err := sizeOf(tlsHeaders, p)\n", Expect: "C10.S2",
				More: []repl{{"func (p *SNIProxy) ServeTCP(in net.Conn) error {", "func sizeOf(hdr []byte, _ *SNIProxy) (int, error) {\n\tn, err := clientHelloBufferSize(hdr)\n\tif err != nil {\n\t\treturn 0, err\n\t}\n\treturn n + 1, nil\n}\n\nfunc (p *SNIProxy) ServeTCP(in net.Conn) error {"}}},
			{Name: "benign: offset-style helper u16at(b, off): the relation between the two parameters is proved at each call site", File: "proxy/tcp/tls_clienthello.go",
				Old: "\t\textension := uint16(data[0])<<8 | uint16(data[1])\n\t\tlength := int(data[2])<<8 | int(data[3])\n", New: "\t\textension := uint16(u16at(data, 0))\n\t\tlength := u16at(data, 2)\n", Expect: "",
				More: []repl{{"type clientHelloMsg struct {", "func u16at(b []byte, off int) int { return int(b[off])<<8 | int(b[off+1]) }\n\ntype clientHelloMsg struct {"}}},
			{Name: "benign: record length as data[3]*256 + data[4], limits written the other way round", File: "proxy/tcp/tls_clienthello.go",
				Old: "\trecordLength := int(data[3])<<8 | int(data[4])\n\tif recordLength <= 0 || recordLength > 16384 {", New: "\trecordLength := int(data[3])*256 + int(data[4])\n\tif recordLength < 1 || 16384 < recordLength {", Expect: "",
				More: []repl{{"handshakeLength > recordLength-4", "handshakeLength+4 > recordLength"}}},
			// ---- the same shapes with a real defect (must be reported, by the rule that states the reason)
			{Name: "cursor helper with two call sites, at one of them only one byte is known to be left", File: "proxy/tcp/tls_clienthello.go",
				Old: "\textensionsLength := int(data[0])<<8 | int(data[1])\n", New: "\textensionsLength := be16(data[1:])\n", Expect: "C10.M1",
				More: []repl{{"\tcipherSuiteLen := int(data[0])<<8 | int(data[1])\n", "\tcipherSuiteLen := be16(data)\n"}, {"type clientHelloMsg struct {", "func be16(b []byte) int { return int(b[0])<<8 | int(b[1]) }\n\ntype clientHelloMsg struct {"}}},
			{Name: "offset-style helper called with an offset one too far", File: "proxy/tcp/tls_clienthello.go",
				Old: "\t\textension := uint16(data[0])<<8 | uint16(data[1])\n\t\tlength := int(data[2])<<8 | int(data[3])\n", New: "\t\textension := uint16(u16at(data, 0))\n\t\tlength := u16at(data, 3)\n", Expect: "C10.M1",
				More: []repl{{"type clientHelloMsg struct {", "func u16at(b []byte, off int) int { return int(b[off])<<8 | int(b[off+1]) }\n\ntype clientHelloMsg struct {"}}},
			{Name: "record length assembled from the wrong header bytes", File: "proxy/tcp/tls_clienthello.go",
				Old: "\trecordLength := int(data[3])<<8 | int(data[4])\n", New: "\trecordLength := int(data[2])*256 + int(data[3])\n", Expect: "C10.S1"},
			{Name: "record-length helper called before the length test", File: "proxy/tcp/tls_clienthello.go",
				Old: "\tif len(data) < 9 {", New: "\trecordLength := recLen(data)\n\tif len(data) < 9 {", Expect: "C10.M1",
				More: []repl{{"\trecordLength := int(data[3])<<8 | int(data[4])\n", ""}, {"// readServerName returns the server name", "func recLen(hdr []byte) int { return int(hdr[3])<<8 | int(hdr[4]) }\n\n// readServerName returns the server name"}}},
			{Name: "binary.BigEndian.Uint16 on a slice that may hold one byte", File: "proxy/tcp/tls_clienthello.go",
				Old: "\tcipherSuiteLen := int(data[0])<<8 | int(data[1])\n", New: "\tcipherSuiteLen := int(binary.BigEndian.Uint16(data[1:]))\n", Expect: "C10.M2",
				More: []repl{{"import \"errors\"", "import (\n\t\"encoding/binary\"\n\t\"errors\"\n)"}}},
			{Name: "record length kept in uint16: recordLength-4 wraps for records of 1..3 bytes", File: "proxy/tcp/tls_clienthello.go",
				Old: "\trecordLength := int(data[3])<<8 | int(data[4])\n\tif recordLength <= 0 || recordLength > 16384 {", New: "\trecordLength := uint16(data[3])<<8 | uint16(data[4])\n\tif recordLength == 0 || recordLength > 16384 {", Expect: "C10.S1",
				More: []repl{{"handshakeLength > recordLength-4", "handshakeLength > int(recordLength-4)"}}},
			{Name: "shift by a count computed from the input", File: "proxy/tcp/tls_clienthello.go",
				Old: "\tcompressionMethodsLen := int(data[0])\n", New: "\tcompressionMethodsLen := int(data[0])\n\tif 1<<(compressionMethodsLen-200) > 5 {\n\t\treturn false\n\t}\n", Expect: "C10.M2"},
			{Name: "parser inlined into the handler and called on a nil message", File: "proxy/tcp/sni_proxy.go",
				Old: "\thost, ok := readServerName(data[5:])\n\tif !ok {", New: "\tvar m *clientHelloMsg\n\tok := m.unmarshal(data[5:])\n\thost := \"\"\n\tif !ok {", Expect: "C10.M2"},
			{Name: "a helper consumes a byte of the stream before routing", File: "proxy/tcp/sni_proxy.go",
				Old: "\ttlsReader := bufio.NewReader(in)\n", New: "\ttlsReader := bufio.NewReader(in)\n\tskipByte(tlsReader)\n", Expect: "C10.S2",
				More: []repl{{"func (p *SNIProxy) ServeTCP(in net.Conn) error {", "func skipByte(r *bufio.Reader) { r.Discard(1) }\n\nfunc (p *SNIProxy) ServeTCP(in net.Conn) error {"}}},
			{Name: "capture helper allocates one byte more than the size it is given", File: "proxy/tcp/sni_proxy.go",
				Old: "\tdata := make([]byte, bufferSize)\n\t_, err = io.ReadFull(tlsReader, data)\n", New: "\tdata, err := capture(tlsReader, bufferSize)\n", Expect: "C10.S2",
				More: []repl{{"func (p *SNIProxy) ServeTCP(in net.Conn) error {", "func capture(r *bufio.Reader, n int) ([]byte, error) {\n\tbuf := make([]byte, n+1)\n\tif _, err := io.ReadFull(r, buf); err != nil {\n\t\treturn nil, err\n\t}\n\treturn buf, nil\n}\n\nfunc (p *SNIProxy) ServeTCP(in net.Conn) error {"}}},
			{Name: "handler skips six bytes of a buffer that is only known to hold five", File: "proxy/tcp/sni_proxy.go",
				Old: "readServerName(data[5:])", New: "readServerName(data[6:])", Expect: "C10.M3",
				More: []repl{{"\tbufferSize, err := clientHelloBufferSize(tlsHeaders)\n", "\tbufferSize, err := clientHelloBufferSize(tlsHeaders)\n\tbufferSize -= 5\n"}}},
		}, append(c10mutantsRound2, c10mutantsRound3...)...),
	})
}

type bceReport struct {
	file string
	line int
	col  int
	kind string
}

var bceRe = regexp.MustCompile(`^(.*?):(\d+):(\d+): Found (\w+)`)

// compilerBCE runs the compiler's bounds-check-elimination report for one package directory of dir
// (or of an overlay variant written to a private copy) and returns the unproved checks.
func compilerBCE(dir, pkg string, overlay map[string][]byte) ([]bceReport, error) {
	args := []string{"build", "-gcflags=-l -d=ssa/check_bce/debug=1"}
	if overlay != nil {
		// go build -overlay wants a JSON file mapping paths to replacement files
		tmp, err := os.MkdirTemp("", "verif-bce")
		if err != nil {
			return nil, err
		}
		defer os.RemoveAll(tmp)
		var b strings.Builder
		b.WriteString("{\"Replace\":{")
		k := 0
		for p, data := range overlay {
			f := filepath.Join(tmp, fmt.Sprintf("f%d.go", k))
			if err := os.WriteFile(f, data, 0o644); err != nil {
				return nil, err
			}
			if k > 0 {
				b.WriteString(",")
			}
			b.WriteString(strconv.Quote(p) + ":" + strconv.Quote(f))
			k++
		}
		b.WriteString("}}")
		ov := filepath.Join(tmp, "overlay.json")
		os.WriteFile(ov, []byte(b.String()), 0o644)
		args = append(args, "-overlay", ov)
	}
	// as in load(): the go command must never rewrite the analysed tree's go.mod (it does, under -mod=mod, when a
	// variant imports a package of an indirect dependency directly)
	if mf, cleanup := scratchModfile(dir); mf != "" {
		defer cleanup()
		args = append(args, "-modfile="+mf)
	}
	args = append(args, "./"+pkg)
	cmd := exec.Command("go", args...)
	cmd.Dir = dir
	cmd.Env = append(os.Environ(), "GOFLAGS=-mod=mod", "GOPROXY=off", "GOWORK=off")
	var out bytes.Buffer
	cmd.Stdout = &out
	cmd.Stderr = &out
	err := cmd.Run()
	var reps []bceReport
	sc := bufio.NewScanner(&out)
	sawOther := ""
	for sc.Scan() {
		line := sc.Text()
		if m := bceRe.FindStringSubmatch(line); m != nil {
			n, _ := strconv.Atoi(m[2])
			f := m[1]
			if overlay != nil {
				// map replacement files back
				for p := range overlay {
					if filepath.Base(f) == filepath.Base(p) || strings.HasSuffix(p, f) {
						f = p
					}
				}
			}
			col, _ := strconv.Atoi(m[3])
			reps = append(reps, bceReport{f, n, col, m[4]})
		} else if !strings.HasPrefix(line, "#") && strings.TrimSpace(line) != "" {
			sawOther = line
		}
	}
	if err != nil && sawOther != "" {
		return nil, fmt.Errorf("go build failed: %s", sawOther)
	}
	return reps, nil
}

func runC10(c *Ctx) {
	const pkg = "proxy/tcp"
	c10envRound4 = nil // the roles, for the rules of c10_round4.go (which run after this function)
	pp := c.ppkg(pkg)
	if pp == nil {
		c.undecided("C10.M1", "anchor|package proxy/tcp", "not loaded")
		return
	}
	var overlay map[string][]byte
	if c.Tier == "mutant" {
		overlay = currentOverlay
	}
	reps, err := compilerBCE(c.Dir, pkg, overlay)
	if err != nil {
		c.undecided("C10.M1", "anchor|compiler bounds-check report", err.Error())
		return
	}
	// the handler is an interface method of the exported proxy type: stable enough to name
	h := c.method(pkg, "SNIProxy", "ServeTCP")
	if !c.need("C10.S2", h, "tcp.SNIProxy.ServeTCP") {
		return
	}
	c10wrappedFor = c10scanWrapped(c.AllFns)
	c10allFns = c.AllFns
	c10escMemo = map[string]bool{}
	c10proverForRoles = newC10Prover(nil) // for the roles: only its memory walk is used (which value a load observes)
	env := c10resolve(c, h)
	c10envRound4 = env
	bce := newC10BCE(c, pp, reps)
	// the parser roots are the entry points for hostile bytes: nothing is assumed about their parameters, whatever
	// today's call sites pass (the size function must test the length of its input itself even though the handler
	// peeks exactly nine bytes)
	px := newC10Prover(env.isRoot)
	c10proverForRoles = px
	runC10M1(c, env, bce, px)
	runC10M2(c, env, px)
	runC10S1(c, env, px)
	runC10S2(c, env, bce, px)
}

func boundStr(v int64, ok bool) string {
	if !ok {
		return "unbounded"
	}
	return strconv.FormatInt(v, 10)
}

// currentOverlay is set while an overlay mutant is being analysed so that the compiler-based rule sees the same variant.
var currentOverlay map[string][]byte
