package main

import (
	"bufio"
	"bytes"
	"fmt"
	"go/ast"
	"go/token"
	"os"
	"os/exec"
	"path/filepath"
	"regexp"
	"strconv"
	"strings"

	"golang.org/x/tools/go/ssa"
)

func init() {
	register(&propDef{
		ID:      "C10",
		Level:   "proof",
		Explain: "Proof, for the stated clauses only, that the hand-written ClientHello handling cannot read out of bounds or panic and never buffers more than the first TLS record: (M1) every index and slice expression in clientHelloBufferSize, readServerName and clientHelloMsg.unmarshal is proved in bounds by the Go compiler's prove pass (go build -gcflags='-l -d=ssa/check_bce/debug=1' reports every bounds check it could NOT eliminate; obligations are counted from the AST, discharged = those without a report); (M2) those functions contain no other panic source (no type assertion, integer division, map write, explicit panic, nil-able pointer dereference or call to a non-total function); (M3) the one residual bounds check of the SNI handler, data[5:], is discharged by the difference-bound prover: on every nil-error return clientHelloBufferSize returns >= 10; (S1) on every nil-error return result - recordLength <= 5 and result <= 16389, with recordLength the value assembled from header bytes 3-4 (the buffer never exceeds the first TLS record); (S2) the SNI handler allocates exactly that many bytes, fills them with the only consuming read before the route lookup (io.ReadFull), looks the route up under the parser's result, and returns on the !ok and host == \"\" edges before any lookup or dial. NOT covered by this claim: equality of the extracted name with crypto/tls's on well-formed hellos (semantic equivalence of two parsers).",
		Run:     runC10,
		Trusted: []string{"the Go compiler's prove pass is sound (a bounds check it eliminates cannot fail)", "the checker's difference-bound prover (Bellman-Ford over branch facts and SSA definitions)", "io.ReadFull fills the whole buffer or returns an error"},
		Mutants: []mutant{
			{Name: "delete one length test in unmarshal", File: "proxy/tcp/tls_clienthello.go", Old: "\t\tif len(data) < 4 {\n\t\t\treturn false\n\t\t}\n", New: "", Expect: "C10.M1"},
			{Name: "session id length not checked against the data", File: "proxy/tcp/tls_clienthello.go", Old: "if sessionIdLen > 32 || len(data) < 39+sessionIdLen {", New: "if sessionIdLen > 32 {", Expect: "C10.M1"},
			{Name: "name length test off by one", File: "proxy/tcp/tls_clienthello.go", Old: "\t\t\t\tif len(d) < nameLen {", New: "\t\t\t\tif len(d)+1 < nameLen {", Expect: "C10.M1"},
			{Name: "record length limit raised", File: "proxy/tcp/tls_clienthello.go", Old: "if recordLength <= 0 || recordLength > 16384 {", New: "if recordLength <= 0 || recordLength > 65535 {", Expect: "C10.S1"},
			{Name: "handshake may exceed the record", File: "proxy/tcp/tls_clienthello.go", Old: "handshakeLength > recordLength-4", New: "handshakeLength > recordLength", Expect: "C10.S1"},
			{Name: "zero-length handshake accepted", File: "proxy/tcp/tls_clienthello.go", Old: "if handshakeLength <= 0 || ", New: "if handshakeLength < -5 || ", Expect: "C10.M3"},
			{Name: "buffer one byte larger than computed", File: "proxy/tcp/sni_proxy.go", Old: "data := make([]byte, bufferSize)", New: "data := make([]byte, bufferSize+1)", Expect: "C10.S2"},
			{Name: "route looked up although parsing failed", File: "proxy/tcp/sni_proxy.go", Old: "\thost, ok := readServerName(data[5:])\n\tif !ok {", New: "\thost, ok := readServerName(data[5:])\n\tif !ok && host == \"x\" {", Expect: "C10.S2"},
			{Name: "a division sneaks into the parser", File: "proxy/tcp/tls_clienthello.go", Old: "\tcipherSuiteLen := int(data[0])<<8 | int(data[1])\n", New: "\tcipherSuiteLen := int(data[0])<<8 | int(data[1])\n\tif 100/cipherSuiteLen > 3 {\n\t\treturn false\n\t}\n", Expect: "C10.M2"},
			{Name: "benign: hoist len(data) into a local", File: "proxy/tcp/tls_clienthello.go", Old: "\tif len(data) < 42 {\n\t\treturn false\n\t}", New: "\tn := len(data)\n\tif n < 42 {\n\t\treturn false\n\t}", Expect: ""},
		},
	})
}

type bceReport struct {
	file string
	line int
	col  int
	kind string
}

var bceRe = regexp.MustCompile(`^(.*?):(\d+):(\d+): Found (\w+)`)

// compilerBCE runs the compiler's bounds-check-elimination report for one package directory of dir
// (or of an overlay variant written to a private copy) and returns the unproved checks.
func compilerBCE(dir, pkg string, overlay map[string][]byte) ([]bceReport, error) {
	args := []string{"build", "-gcflags=-l -d=ssa/check_bce/debug=1"}
	if overlay != nil {
		// go build -overlay wants a JSON file mapping paths to replacement files
		tmp, err := os.MkdirTemp("", "verif-bce")
		if err != nil {
			return nil, err
		}
		defer os.RemoveAll(tmp)
		var b strings.Builder
		b.WriteString("{\"Replace\":{")
		k := 0
		for p, data := range overlay {
			f := filepath.Join(tmp, fmt.Sprintf("f%d.go", k))
			if err := os.WriteFile(f, data, 0o644); err != nil {
				return nil, err
			}
			if k > 0 {
				b.WriteString(",")
			}
			b.WriteString(strconv.Quote(p) + ":" + strconv.Quote(f))
			k++
		}
		b.WriteString("}}")
		ov := filepath.Join(tmp, "overlay.json")
		os.WriteFile(ov, []byte(b.String()), 0o644)
		args = append(args, "-overlay", ov)
	}
	args = append(args, "./"+pkg)
	cmd := exec.Command("go", args...)
	cmd.Dir = dir
	cmd.Env = append(os.Environ(), "GOFLAGS=-mod=mod", "GOPROXY=off", "GOWORK=off")
	var out bytes.Buffer
	cmd.Stdout = &out
	cmd.Stderr = &out
	err := cmd.Run()
	var reps []bceReport
	sc := bufio.NewScanner(&out)
	sawOther := ""
	for sc.Scan() {
		line := sc.Text()
		if m := bceRe.FindStringSubmatch(line); m != nil {
			n, _ := strconv.Atoi(m[2])
			f := m[1]
			if overlay != nil {
				// map replacement files back
				for p := range overlay {
					if filepath.Base(f) == filepath.Base(p) || strings.HasSuffix(p, f) {
						f = p
					}
				}
			}
			col, _ := strconv.Atoi(m[3])
			reps = append(reps, bceReport{f, n, col, m[4]})
		} else if !strings.HasPrefix(line, "#") && strings.TrimSpace(line) != "" {
			sawOther = line
		}
	}
	if err != nil && sawOther != "" {
		return nil, fmt.Errorf("go build failed: %s", sawOther)
	}
	return reps, nil
}

func runC10(c *Ctx) {
	const pkg = "proxy/tcp"
	pp := c.ppkg(pkg)
	if pp == nil {
		c.undecided("C10.M1", "anchor|package proxy/tcp", "not loaded")
		return
	}
	var overlay map[string][]byte
	if c.Tier == "mutant" {
		overlay = currentOverlay
	}
	reps, err := compilerBCE(c.Dir, pkg, overlay)
	if err != nil {
		c.undecided("C10.M1", "anchor|compiler bounds-check report", err.Error())
		return
	}
	unproved := map[string]map[int]string{} // file -> line -> kind
	for _, r := range reps {
		f := r.file
		if !filepath.IsAbs(f) {
			f = filepath.Join(c.Dir, f)
		}
		if unproved[f] == nil {
			unproved[f] = map[int]string{}
		}
		unproved[f][r.line] = r.kind
	}
	parser := map[string]bool{"clientHelloBufferSize": true, "readServerName": true, "unmarshal": true}
	nIdx := 0
	for _, file := range pp.Syntax {
		for _, d := range file.Decls {
			fd, ok := d.(*ast.FuncDecl)
			if !ok || !parser[fd.Name.Name] || fd.Body == nil {
				continue
			}
			fname := fd.Name.Name
			ast.Inspect(fd.Body, func(n ast.Node) bool {
				var kind string
				switch n.(type) {
				case *ast.IndexExpr:
					kind = "index"
				case *ast.SliceExpr:
					kind = "slice"
				default:
					return true
				}
				nIdx++
				pos := c.Fset.Position(n.Pos())
				why, bad := unproved[pos.Filename][pos.Line]
				c.check("C10.M1", "proxy/tcp."+fname+"|"+kind+" expression proved in bounds", n.Pos(), !bad,
					"the compiler's prove pass cannot show this "+kind+" expression in bounds ("+why+"): some ClientHello bytes make the parser read out of range and panic inside the connection handler")
				return true
			})
			// M2: other panic sources (AST level)
			ast.Inspect(fd.Body, func(n ast.Node) bool {
				switch x := n.(type) {
				case *ast.TypeAssertExpr:
					c.check("C10.M2", "proxy/tcp."+fname+"|type assertion", x.Pos(), false, "a type assertion in the parser can panic")
				case *ast.BinaryExpr:
					if x.Op == token.QUO || x.Op == token.REM {
						tv := pp.TypesInfo.Types[x.Y]
						if tv.Value == nil {
							c.check("C10.M2", "proxy/tcp."+fname+"|integer division by a computed value", x.Pos(), false, "division by a value taken from the input can panic (divide by zero)")
						} else {
							c.check("C10.M2", "proxy/tcp."+fname+"|division by a constant", x.Pos(), true, "")
						}
					}
				case *ast.CallExpr:
					if id, ok := x.Fun.(*ast.Ident); ok && id.Name == "panic" {
						c.check("C10.M2", "proxy/tcp."+fname+"|explicit panic", x.Pos(), false, "explicit panic in the parser")
					}
				}
				return true
			})
		}
	}
	c.atLeast("C10.M1", "index/slice expressions in the ClientHello parser", nIdx, 20)

	// M2 on SSA: calls, map updates, pointer dereferences
	bufSize := c.fn(pkg, "clientHelloBufferSize")
	readName := c.fn(pkg, "readServerName")
	unm := c.method(pkg, "clientHelloMsg", "unmarshal")
	if !c.need("C10.M2", bufSize, "tcp.clientHelloBufferSize") || !c.need("C10.M2", readName, "tcp.readServerName") || !c.need("C10.M2", unm, "tcp.clientHelloMsg.unmarshal") {
		return
	}
	total := map[string]bool{"errors.New": true, "builtin.len": true, "builtin.cap": true}
	for _, f := range []*ssa.Function{bufSize, readName, unm} {
		okAll := true
		detail := ""
		eachInstr(f, func(i ssa.Instruction) {
			switch x := i.(type) {
			case *ssa.MapUpdate, *ssa.Panic, *ssa.TypeAssert, *ssa.Go, *ssa.Defer, *ssa.Send:
				okAll, detail = false, fmt.Sprintf("%T", x)
			case *ssa.Call:
				if sc := x.Call.StaticCallee(); sc == unm && f == readName {
					// receiver is the fresh allocation
					if _, isAlloc := x.Call.Args[0].(*ssa.Alloc); !isAlloc {
						okAll, detail = false, "unmarshal called on a possibly nil receiver"
					}
					return
				}
				if !total[calleeName(&x.Call)] {
					okAll, detail = false, "call to "+calleeName(&x.Call)
				}
			}
		})
		c.check("C10.M2", fnKey(f)+"|no panic source besides the proved bounds checks", f.Pos(), okAll,
			"the parser must stay free of constructs that can panic on hostile input ("+detail+")")
	}

	// ---- S1 / M3: bounds of the buffer size
	var recordLen ssa.Value
	eachInstr(bufSize, func(i ssa.Instruction) {
		// the value assembled from data[3] and data[4]
		if b, ok := i.(*ssa.BinOp); ok && b.Op == token.OR && recordLen == nil {
			if usesIndex(b, 3) && usesIndex(b, 4) {
				recordLen = b
			}
		}
	})
	if recordLen == nil {
		c.undecided("C10.S1", "proxy/tcp.clientHelloBufferSize|record length", "the value built from header bytes 3-4 was not found")
		return
	}
	nRet := 0
	minResult := int64(1 << 62)
	eachInstr(bufSize, func(i ssa.Instruction) {
		r, ok := i.(*ssa.Return)
		if !ok || len(r.Results) != 2 || !isNilConst(r.Results[1]) {
			return
		}
		nRet++
		d := dbmAt(r.Block())
		res := r.Results[0]
		ubRel, ok1 := d.upper(res, recordLen)
		ubAbs, ok2 := d.upper(res, nil)
		lb, ok3 := d.lower(res)
		c.check("C10.S1", "proxy/tcp.clientHelloBufferSize|result - recordLength <= 5", r.Pos(), ok1 && ubRel <= 5,
			fmt.Sprintf("the buffer size must not exceed the first TLS record (5 header bytes + recordLength); proved bound: result - recordLength <= %s", boundStr(ubRel, ok1)))
		c.check("C10.S1", "proxy/tcp.clientHelloBufferSize|result <= 16389", r.Pos(), ok2 && ubAbs <= 16389,
			fmt.Sprintf("the buffer size must not exceed a maximal TLS record (16384 + 5); proved bound: result <= %s", boundStr(ubAbs, ok2)))
		c.check("C10.M3", "proxy/tcp.clientHelloBufferSize|result >= 10", r.Pos(), ok3 && lb >= 10,
			fmt.Sprintf("the SNI handler slices data[5:] of a buffer of this size and the parser needs the 4-byte handshake header; proved bound: result >= %s", boundStr(lb, ok3)))
		if ok3 && lb < minResult {
			minResult = lb
		}
	})
	c.atLeast("C10.S1", "nil-error returns of clientHelloBufferSize", nRet, 1)

	runC10S2(c, bufSize, readName, minResult, unproved)
}

func boundStr(v int64, ok bool) string {
	if !ok {
		return "unbounded"
	}
	return strconv.FormatInt(v, 10)
}

func usesIndex(v ssa.Value, k int64) bool {
	return derives(v, func(x ssa.Value) bool {
		ia, ok := x.(*ssa.IndexAddr)
		if !ok {
			return false
		}
		n, ok := constInt(ia.Index)
		return ok && n == k
	})
}

func runC10S2(c *Ctx, bufSize, readName *ssa.Function, minResult int64, unproved map[string]map[int]string) {
	h := c.method("proxy/tcp", "SNIProxy", "ServeTCP")
	if !c.need("C10.S2", h, "tcp.SNIProxy.ServeTCP") {
		return
	}
	var sizeCall, nameCall *ssa.Call
	eachInstr(h, func(i ssa.Instruction) {
		if call, ok := i.(*ssa.Call); ok {
			switch call.Call.StaticCallee() {
			case bufSize:
				sizeCall = call
			case readName:
				nameCall = call
			}
		}
	})
	if sizeCall == nil || nameCall == nil {
		c.undecided("C10.S2", "(*proxy/tcp.SNIProxy).ServeTCP|calls of the size function and the parser", "not found")
		return
	}
	isSize := func(v ssa.Value) bool { e, ok := v.(*ssa.Extract); return ok && e.Tuple == sizeCall && e.Index == 0 }
	isSizeErr := func(v ssa.Value) bool { e, ok := v.(*ssa.Extract); return ok && e.Tuple == sizeCall && e.Index == 1 }
	var mk *ssa.MakeSlice
	eachInstr(h, func(i ssa.Instruction) {
		if m, ok := i.(*ssa.MakeSlice); ok && typeStr(m.Type()) == "[]byte" {
			mk = m
		}
	})
	okMk := mk != nil && isSize(mk.Len) && knownNil(mk.Block(), isSizeErr)
	var pos token.Pos = h.Pos()
	if mk != nil {
		pos = mk.Pos()
	}
	c.check("C10.S2", "(*proxy/tcp.SNIProxy).ServeTCP|buffer length is exactly the computed size", pos, okMk,
		"the capture buffer must be make([]byte, n) with n the nil-error result of clientHelloBufferSize: a larger buffer reads beyond the first TLS record (blocking on data the client has not sent, or swallowing application data)")
	if mk == nil {
		return
	}
	// the consuming read: io.ReadFull(reader, data) with data == mk; no other Read/ReadFull before the lookup
	var readFull *ssa.Call
	nReads := 0
	eachInstr(h, func(i ssa.Instruction) {
		call, ok := i.(*ssa.Call)
		if !ok {
			return
		}
		n := calleeName(&call.Call)
		if n == "io.ReadFull" || n == "io.ReadAtLeast" || n == "io.ReadAll" || (call.Call.IsInvoke() && call.Call.Method.Name() == "Read") || n == "(*bufio.Reader).Read" || n == "(*bufio.Reader).Discard" {
			nReads++
			if n == "io.ReadFull" && call.Call.Args[1] == mk {
				readFull = call
			}
		}
	})
	c.check("C10.S2", "(*proxy/tcp.SNIProxy).ServeTCP|the only consuming read before routing is io.ReadFull into that buffer", pos, readFull != nil && nReads == 1,
		"exactly one consuming read (io.ReadFull into the sized buffer) may precede the route lookup; Peek is non-consuming")
	// data[5:] discharged by M3
	var sl *ssa.Slice
	eachInstr(h, func(i ssa.Instruction) {
		if s, ok := i.(*ssa.Slice); ok && s.X == mk && nameCall.Call.Args[0] == s {
			sl = s
		}
	})
	if sl != nil {
		low := int64(0)
		if sl.Low != nil {
			low, _ = constInt(sl.Low)
		}
		c.check("C10.M3", "(*proxy/tcp.SNIProxy).ServeTCP|data["+strconv.FormatInt(low, 10)+":] within the buffer", sl.Pos(), low <= minResult && knownNil(sl.Block(), isSizeErr),
			fmt.Sprintf("the slice needs len(data) >= %d; the buffer has at least %d bytes on the nil-error path of clientHelloBufferSize", low, minResult))
	} else {
		c.undecided("C10.M3", "(*proxy/tcp.SNIProxy).ServeTCP|argument of the parser", "the parser is not given a slice of the capture buffer")
	}
	// lookup key = parser result, under ok == true and host != ""
	isHost := func(v ssa.Value) bool { e, ok := v.(*ssa.Extract); return ok && e.Tuple == nameCall && e.Index == 0 }
	isOK := func(v ssa.Value) bool { e, ok := v.(*ssa.Extract); return ok && e.Tuple == nameCall && e.Index == 1 }
	nLk := 0
	eachInstr(h, func(i ssa.Instruction) {
		call, ok := i.(*ssa.Call)
		if !ok || !isLookupFieldCall(call) {
			return
		}
		nLk++
		okKey := len(call.Call.Args) == 1 && isHost(call.Call.Args[0])
		okFlag, nonEmpty := false, false
		for _, f := range factsAt(call.Block()) {
			if isOK(f.Cond) && f.Truth {
				okFlag = true
			}
			if b, isB := f.Cond.(*ssa.BinOp); isB && isHost(b.X) {
				if s, isS := constString(b.Y); isS && s == "" && ((b.Op == token.EQL && !f.Truth) || (b.Op == token.NEQ && f.Truth)) {
					nonEmpty = true
				}
			}
		}
		c.check("C10.S2", "(*proxy/tcp.SNIProxy).ServeTCP|route looked up under the parsed server name only", call.Pos(), okKey && okFlag && nonEmpty,
			"the route lookup must use the name returned by the parser, on the edge where parsing succeeded (ok) and the name is not empty; malformed or SNI-less hellos are rejected before any lookup or dial")
	})
	c.atLeast("C10.S2", "route lookups in the SNI handler", nLk, 1)
}

// currentOverlay is set while an overlay mutant is being analysed so that the compiler-based rule sees the same variant.
var currentOverlay map[string][]byte
