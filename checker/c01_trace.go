package main

// A small backward tracer for the rules of C01 that follow a value (a text, a channel, a buffer) to where it comes
// from. It is object- and field-sensitive: a load of `u.services` is answered by the stores into field `services` of
// the object(s) `u` may denote - whether `u` is a local struct, a pointer made by a constructor, a receiver, a
// parameter (resolved at the call sites, also the sites that call a method through an interface) or a captured
// variable. State kept in the fields of a small type with methods is therefore followed like state kept in locals.

import (
	"fmt"
	"go/token"
	"go/types"
	"sort"
	"strings"

	"golang.org/x/tools/go/ssa"
	"golang.org/x/tools/go/ssa/ssautil"
)

// c01Cx is a call context: parameters of the callee of site resolve to the arguments of site.
type c01Cx struct {
	site ssa.CallInstruction
	up   *c01Cx
}

func (x *c01Cx) depth() int {
	n := 0
	for ; x != nil; x = x.up {
		n++
	}
	return n
}

func c01CxSite(x *c01Cx) ssa.CallInstruction {
	if x == nil {
		return nil
	}
	return x.site
}

// c01Leaf is an origin of a value: a value the tracer does not look through (a receive, a call that is not a
// repository function, a constant, an allocation ...). v == nil: an origin that could not be determined.
type c01Leaf struct {
	v  ssa.Value
	cx *c01Cx
}

// c01Loc is a memory location: a field/element path inside a root object (an allocation, a global, or - when the
// object cannot be determined - the pointer value itself).
type c01Loc struct {
	root ssa.Value
	path string // "/2/0": field 2, then field 0; "/#1": element 1
	via  ssa.CallInstruction
}

func (l c01Loc) known() bool {
	switch l.root.(type) {
	case *ssa.Alloc, *ssa.Global, *ssa.MakeSlice:
		return true
	}
	return false
}

type c01Tr struct {
	mapUpdates []*ssa.MapUpdate
	c          *Ctx
	stores     []*ssa.Store
	locMemo    map[*ssa.Store][]c01Loc
	invokes    map[string][]ssa.CallInstruction // method name -> calls through an interface
	byField    map[string][]*ssa.Store          // struct type + field -> stores (fallback when the object is unknown)
	siteMemo   map[*ssa.Function][]ssa.CallInstruction
	busy       map[*ssa.Store]bool
	locsMemo   map[c01TrKey][]c01Loc
	storedMemo map[c01TrKey][]c01Stored
	active     map[c01TrKey]bool
	depth      int
}

// c01Tracers: one tracer per loaded program (rules of other properties reach C01's pacing helpers without a Ctx).
var c01Tracers = map[*ssa.Program]*c01Tr{}

func newC01Tr(c *Ctx) *c01Tr {
	if t, ok := c01Tracers[c.Prog]; ok {
		return t
	}
	t := c01NewTracer(c.AllFns)
	c01Tracers = map[*ssa.Program]*c01Tr{c.Prog: t} // keep the latest only
	return t
}

// c01TracerOf: the tracer of the program fn belongs to.
func c01TracerOf(fn *ssa.Function) *c01Tr {
	if fn == nil || fn.Prog == nil {
		return nil
	}
	if t, ok := c01Tracers[fn.Prog]; ok {
		return t
	}
	var fns []*ssa.Function
	for f := range ssautil.AllFunctions(fn.Prog) {
		if len(f.Blocks) > 0 && f.Synthetic == "" && isRepoFn(f) {
			fns = append(fns, f)
		}
	}
	sort.Slice(fns, func(i, j int) bool {
		if fns[i].String() != fns[j].String() {
			return fns[i].String() < fns[j].String()
		}
		return fns[i].Pos() < fns[j].Pos()
	})
	t := c01NewTracer(fns)
	c01Tracers = map[*ssa.Program]*c01Tr{fn.Prog: t}
	return t
}

func c01NewTracer(fns []*ssa.Function) *c01Tr {
	t := &c01Tr{locMemo: map[*ssa.Store][]c01Loc{}, invokes: map[string][]ssa.CallInstruction{}, byField: map[string][]*ssa.Store{},
		siteMemo: map[*ssa.Function][]ssa.CallInstruction{}, busy: map[*ssa.Store]bool{}, active: map[c01TrKey]bool{}, locsMemo: map[c01TrKey][]c01Loc{}, storedMemo: map[c01TrKey][]c01Stored{}}
	for _, f := range fns {
		eachInstr(f, func(i ssa.Instruction) {
			switch x := i.(type) {
			case *ssa.Store:
				t.stores = append(t.stores, x)
				if fa, ok := x.Addr.(*ssa.FieldAddr); ok {
					k := c01FieldKey(fa.X.Type(), fa.Field)
					t.byField[k] = append(t.byField[k], x)
				}
			case *ssa.MapUpdate:
				t.mapUpdates = append(t.mapUpdates, x)
			case ssa.CallInstruction:
				if cc := x.Common(); cc.IsInvoke() {
					t.invokes[cc.Method.Name()] = append(t.invokes[cc.Method.Name()], x)
				}
			}
		})
	}
	return t
}

func c01FieldKey(t types.Type, field int) string {
	if p, ok := t.Underlying().(*types.Pointer); ok {
		t = p.Elem()
	}
	return fmt.Sprintf("%s/%d", typeStr(t), field)
}

// sitesOf: the call sites of fn in the repository: static calls (call, go, defer) and, for a method, the calls
// through an interface that its receiver type implements.
func (t *c01Tr) sitesOf(fn *ssa.Function) []ssa.CallInstruction {
	if s, ok := t.siteMemo[fn]; ok {
		return s
	}
	out := append([]ssa.CallInstruction{}, gSites[fn]...)
	if recv := fn.Signature.Recv(); recv != nil {
		for _, s := range t.invokes[fn.Name()] {
			it, _ := s.Common().Value.Type().Underlying().(*types.Interface)
			if it != nil && types.Implements(recv.Type(), it) {
				out = append(out, s)
			}
		}
	}
	t.siteMemo[fn] = out
	return out
}

// c01ArgAt: the argument of site that parameter k of fn stands for.
func c01ArgAt(site ssa.CallInstruction, fn *ssa.Function, k int) ssa.Value {
	cc := site.Common()
	if cc.IsInvoke() {
		if k == 0 {
			return cc.Value
		}
		k--
	}
	if k < 0 || k >= len(cc.Args) {
		return nil
	}
	return cc.Args[k]
}

// c01CalleeIs: site calls fn (statically, or through an interface method of that name).
func c01CalleeIs(site ssa.CallInstruction, fn *ssa.Function) bool {
	cc := site.Common()
	if cc.IsInvoke() {
		return fn.Signature.Recv() != nil && cc.Method.Name() == fn.Name()
	}
	sc := cc.StaticCallee()
	return sc != nil && (sc == fn || unwrap(sc) == fn)
}

type c01TrKey struct {
	v    ssa.Value
	site ssa.CallInstruction
	path string
}

type c01Walk struct {
	t    *c01Tr
	seen map[c01TrKey]bool
	out  []c01Leaf
	stop func(ssa.Value) bool // values not to look through (reported as leaves)
}

// origins: the leaves the value v (projected to the field path `path` when v is a struct) may come from.
func (t *c01Tr) origins(v ssa.Value, cx *c01Cx) []c01Leaf {
	w := &c01Walk{t: t, seen: map[c01TrKey]bool{}}
	w.val(v, cx, "", 0)
	return w.out
}

func (w *c01Walk) leaf(v ssa.Value, cx *c01Cx) {
	w.out = append(w.out, c01Leaf{v, cx})
}

func c01Returns(fn *ssa.Function) []*ssa.Return {
	var out []*ssa.Return
	for _, b := range fn.Blocks {
		if len(b.Instrs) > 0 {
			if r, ok := b.Instrs[len(b.Instrs)-1].(*ssa.Return); ok {
				out = append(out, r)
			}
		}
	}
	return out
}

// c01RepoCallee: the repository function (with a body) a call statically denotes.
func c01RepoCallee(cc *ssa.CallCommon) *ssa.Function {
	sc := cc.StaticCallee()
	if sc == nil {
		return nil
	}
	sc = unwrap(sc)
	if !isRepoFn(sc) || len(sc.Blocks) == 0 {
		return nil
	}
	return sc
}

func (w *c01Walk) val(v ssa.Value, cx *c01Cx, path string, d int) {
	if v == nil {
		return
	}
	key := c01TrKey{v, c01CxSite(cx), path}
	if w.seen[key] {
		return
	}
	w.seen[key] = true
	if d > 60 {
		w.leaf(nil, cx)
		return
	}
	if w.stop != nil && w.stop(v) {
		w.leaf(v, cx)
		return
	}
	switch x := v.(type) {
	case *ssa.Phi:
		for _, e := range x.Edges {
			w.val(e, cx, path, d+1)
		}
	case *ssa.ChangeType:
		w.val(x.X, cx, path, d+1)
	case *ssa.MakeInterface:
		w.val(x.X, cx, path, d+1)
	case *ssa.ChangeInterface:
		w.val(x.X, cx, path, d+1)
	case *ssa.TypeAssert:
		if x.CommaOk {
			w.leaf(v, cx)
			return
		}
		w.val(x.X, cx, path, d+1)
	case *ssa.Convert:
		// string <-> []byte keeps the text
		w.val(x.X, cx, path, d+1)
	case *ssa.Field:
		w.val(x.X, cx, fmt.Sprintf("/%d", x.Field)+path, d+1)
	case *ssa.Extract:
		if call, ok := x.Tuple.(*ssa.Call); ok {
			if sc := c01RepoCallee(&call.Call); sc != nil && cx.depth() < 6 {
				in := &c01Cx{call, cx}
				for _, r := range c01Returns(sc) {
					if x.Index < len(r.Results) {
						w.val(r.Results[x.Index], in, path, d+1)
					}
				}
				return
			}
		}
		if lk, ok := x.Tuple.(*ssa.Lookup); ok && x.Index == 0 && w.lookup(lk, cx, path, d) {
			return
		}
		w.leaf(v, cx)
	case *ssa.Call:
		if sc := c01RepoCallee(&x.Call); sc != nil && cx.depth() < 6 {
			in := &c01Cx{x, cx}
			for _, r := range c01Returns(sc) {
				if len(r.Results) > 0 {
					w.val(r.Results[0], in, path, d+1)
				}
			}
			return
		}
		w.leaf(v, cx)
	case *ssa.Parameter:
		fn := x.Parent()
		k := c01ParamIndex(x)
		if cx != nil && c01CalleeIs(cx.site, fn) {
			if a := c01ArgAt(cx.site, fn, k); a != nil {
				w.val(a, cx.up, path, d+1)
				return
			}
		}
		sites := w.t.sitesOf(fn)
		if len(sites) == 0 || gAddrTaken[fn] || k < 0 {
			w.leaf(v, cx)
			return
		}
		for _, s := range sites {
			if a := c01ArgAt(s, fn, k); a != nil {
				w.val(a, nil, path, d+1)
			}
		}
	case *ssa.FreeVar:
		fn := x.Parent()
		idx := -1
		for k, fv := range fn.FreeVars {
			if fv == x {
				idx = k
			}
		}
		n := 0
		if fn.Parent() != nil && idx >= 0 {
			eachInstr(fn.Parent(), func(i ssa.Instruction) {
				if mc, ok := i.(*ssa.MakeClosure); ok && mc.Fn == fn && idx < len(mc.Bindings) {
					n++
					w.val(mc.Bindings[idx], nil, path, d+1)
				}
			})
		}
		if n == 0 {
			w.leaf(v, cx)
		}
	case *ssa.UnOp:
		if x.Op == token.MUL {
			w.load(x, cx, path, d+1)
			return
		}
		w.leaf(v, cx)
	case *ssa.Lookup:
		if !x.CommaOk && w.lookup(x, cx, path, d) {
			return
		}
		w.leaf(v, cx)
	default:
		w.leaf(v, cx)
	}
}

// lookup: m[k] with a constant key: the values stored under that key into the same map (made by one make / literal).
func (w *c01Walk) lookup(x *ssa.Lookup, cx *c01Cx, path string, d int) bool {
	key, ok := x.Index.(*ssa.Const)
	if !ok || key.Value == nil {
		return false
	}
	if _, isMap := x.X.Type().Underlying().(*types.Map); !isMap {
		return false
	}
	roots := map[ssa.Value]bool{}
	for _, lf := range w.t.origins(x.X, cx) {
		if _, isMk := lf.v.(*ssa.MakeMap); !isMk {
			return false
		}
		roots[lf.v] = true
	}
	if len(roots) == 0 {
		return false
	}
	for _, mu := range w.t.mapUpdates {
		if !types.Identical(mu.Map.Type(), x.X.Type()) {
			continue
		}
		same := false
		for _, lf := range w.t.origins(mu.Map, nil) {
			if roots[lf.v] {
				same = true
			}
		}
		if !same {
			continue
		}
		k2, isK := mu.Key.(*ssa.Const)
		if !isK || k2.Value == nil {
			return false // a key that is not constant may be this key
		}
		if k2.Value.ExactString() == key.Value.ExactString() {
			w.val(mu.Value, nil, path, d+1)
		}
	}
	return true
}

// c01Stored is a value stored into a location; path is the projection still to be applied to it (the store wrote a
// whole struct / array that contains the location).
type c01Stored struct {
	v    ssa.Value
	cx   *c01Cx
	path string
	st   *ssa.Store
}

// storedAt: the values stored into location root+full anywhere in the repository.
func (t *c01Tr) storedAt(root ssa.Value, full string) []c01Stored {
	mkey := c01TrKey{root, nil, full}
	if r, ok := t.storedMemo[mkey]; ok {
		return r
	}
	var out []c01Stored
	for _, st := range t.stores {
		if !c01MayStoreInto(st, root, full) {
			continue
		}
		for _, sl := range t.storeLocs(st) {
			if sl.root != root {
				continue
			}
			var scx *c01Cx
			if sl.via != nil {
				scx = &c01Cx{sl.via, nil}
			}
			switch {
			case sl.path == full:
				out = append(out, c01Stored{st.Val, scx, "", st})
			case strings.HasPrefix(full, sl.path+"/"):
				out = append(out, c01Stored{st.Val, scx, full[len(sl.path):], st})
			}
		}
	}
	if len(t.busy) == 0 {
		t.storedMemo[mkey] = out
	}
	return out
}

// storesInto: the store instructions that write exactly location root+full.
func (t *c01Tr) storesInto(root ssa.Value, full string) []*ssa.Store {
	var out []*ssa.Store
	for _, st := range t.stores {
		if !c01MayStoreInto(st, root, full) {
			continue
		}
		for _, sl := range t.storeLocs(st) {
			if sl.root == root && sl.path == full {
				out = append(out, st)
				break
			}
		}
	}
	return out
}

// load: the values stored into the location(s) *x.X (+ path).
func (w *c01Walk) load(x *ssa.UnOp, cx *c01Cx, path string, d int) {
	locs := w.t.locsOf(x.X, cx)
	if len(locs) == 0 {
		w.leaf(x, cx)
		return
	}
	for _, loc := range locs {
		if !loc.known() {
			// the object is not known: all stores into that field of that struct type, whatever the object
			if fa, ok := x.X.(*ssa.FieldAddr); ok && path == "" {
				if sts := w.t.byField[c01FieldKey(fa.X.Type(), fa.Field)]; len(sts) > 0 {
					for _, st := range sts {
						w.val(st.Val, nil, "", d+1)
					}
					continue
				}
			}
			w.leaf(x, cx)
			continue
		}
		for _, sv := range w.t.storedAt(loc.root, loc.path+path) {
			w.val(sv.v, sv.cx, sv.path, d+1)
		}
	}
}

// c01MayStoreInto is a cheap filter: can the store write (a prefix of) location root+full at all? A store to a plain
// local cell or global writes that cell only; a store through a field / element address writes a location whose path
// ends in that field / element.
func c01MayStoreInto(st *ssa.Store, root ssa.Value, full string) bool {
	switch a := st.Addr.(type) {
	case *ssa.Alloc:
		return ssa.Value(a) == root
	case *ssa.Global:
		return ssa.Value(a) == root
	case *ssa.FieldAddr:
		comp := fmt.Sprintf("/%d", a.Field)
		return strings.HasSuffix(full, comp) || strings.Contains(full, comp+"/")
	case *ssa.IndexAddr:
		if k, ok := constInt(a.Index); ok {
			comp := fmt.Sprintf("/#%d", k)
			return strings.HasSuffix(full, comp) || strings.Contains(full, comp+"/")
		}
		return strings.Contains(full, "/#")
	}
	return true
}

func (t *c01Tr) storeLocs(st *ssa.Store) []c01Loc {
	if l, ok := t.locMemo[st]; ok {
		return l
	}
	if t.busy[st] {
		return nil // a cycle: the store's own address is being resolved
	}
	t.busy[st] = true
	l := t.locsOf(st.Addr, nil)
	delete(t.busy, st)
	t.locMemo[st] = l
	return l
}

// locsOf: the locations the address (or slice) value addr may denote.
func (t *c01Tr) locsOf(addr ssa.Value, cx *c01Cx) []c01Loc {
	var out []c01Loc
	akey := c01TrKey{addr, c01CxSite(cx), ""}
	if r, ok := t.locsMemo[akey]; ok {
		return r
	}
	if t.active[akey] || t.depth > 16 {
		return []c01Loc{{addr, "", nil}} // recursion (a recursive helper handing its own parameter on): not resolved
	}
	t.active[akey] = true
	t.depth++
	defer func() { delete(t.active, akey); t.depth-- }()
	seen := map[c01TrKey]bool{}
	var walk func(a ssa.Value, cx *c01Cx, suffix string, d int)
	add := func(l c01Loc) {
		for _, o := range out {
			if o == l {
				return
			}
		}
		out = append(out, l)
	}
	walk = func(a ssa.Value, cx *c01Cx, suffix string, d int) {
		key := c01TrKey{a, c01CxSite(cx), suffix}
		if seen[key] || d > 30 {
			return
		}
		seen[key] = true
		switch x := a.(type) {
		case *ssa.Alloc, *ssa.Global, *ssa.MakeSlice:
			add(c01Loc{a, suffix, nil})
		case *ssa.FieldAddr:
			walk(x.X, cx, fmt.Sprintf("/%d", x.Field)+suffix, d+1)
		case *ssa.IndexAddr:
			idx := "/#?"
			if k, ok := constInt(x.Index); ok {
				idx = fmt.Sprintf("/#%d", k)
			}
			walk(x.X, cx, idx+suffix, d+1)
		case *ssa.Slice:
			walk(x.X, cx, suffix, d+1)
		case *ssa.ChangeType:
			walk(x.X, cx, suffix, d+1)
		default:
			// a pointer held in a variable, a field, a parameter, returned by a constructor ...
			for _, lf := range t.origins(a, cx) {
				switch lf.v.(type) {
				case *ssa.Alloc, *ssa.Global, *ssa.MakeSlice, *ssa.FieldAddr, *ssa.IndexAddr, *ssa.Slice:
					walk(lf.v, lf.cx, suffix, d+1)
				case nil:
					add(c01Loc{a, suffix, nil})
				default:
					add(c01Loc{lf.v, suffix, nil})
				}
			}
		}
	}
	walk(addr, cx, "", 0)
	// the site through which a parameter of the address's own function was resolved
	if cx == nil {
		out = t.withVia(addr, out)
	}
	t.locsMemo[akey] = out
	return out
}

// withVia: when the address is rooted in a parameter of its own function, the locations are those of the arguments
// at the call sites; remember the site, so that the stored value is resolved at the same site.
func (t *c01Tr) withVia(addr ssa.Value, locs []c01Loc) []c01Loc {
	base := addr
	for {
		switch x := base.(type) {
		case *ssa.FieldAddr:
			base = x.X
			continue
		case *ssa.IndexAddr:
			base = x.X
			continue
		case *ssa.ChangeType:
			base = x.X
			continue
		}
		break
	}
	p, ok := base.(*ssa.Parameter)
	if !ok {
		return locs
	}
	fn := p.Parent()
	sites := t.sitesOf(fn)
	if len(sites) < 2 || gAddrTaken[fn] {
		if len(sites) == 1 {
			for k := range locs {
				locs[k].via = sites[0]
			}
		}
		return locs
	}
	// several sites: resolve per site
	k := c01ParamIndex(p)
	suffix := ""
	for a := addr; a != base; {
		switch x := a.(type) {
		case *ssa.FieldAddr:
			suffix = fmt.Sprintf("/%d", x.Field) + suffix
			a = x.X
		case *ssa.IndexAddr:
			idx := "/#?"
			if n, ok := constInt(x.Index); ok {
				idx = fmt.Sprintf("/#%d", n)
			}
			suffix = idx + suffix
			a = x.X
		case *ssa.ChangeType:
			a = x.X
		}
	}
	var out []c01Loc
	for _, s := range sites {
		arg := c01ArgAt(s, fn, k)
		if arg == nil {
			continue
		}
		for _, l := range t.locsOf(arg, nil) {
			out = append(out, c01Loc{l.root, l.path + suffix, s})
		}
	}
	if len(out) == 0 {
		return locs
	}
	return out
}

// sameObject: two sets of locations have a location in common.
func c01LocsMeet(a, b []c01Loc) bool {
	for _, x := range a {
		for _, y := range b {
			if x.root == y.root && x.path == y.path {
				return true
			}
		}
	}
	return false
}

// c01LocsEqual: the same set of locations.
func c01LocsEqual(a, b []c01Loc) bool {
	in := func(x c01Loc, s []c01Loc) bool {
		for _, y := range s {
			if x.root == y.root && x.path == y.path {
				return true
			}
		}
		return false
	}
	for _, x := range a {
		if !in(x, b) {
			return false
		}
	}
	for _, y := range b {
		if !in(y, a) {
			return false
		}
	}
	return len(a) > 0
}

// c01CxOf / c01FrameOf convert between the call contexts of the tracer and of the older C01 walks.
func c01CxOf(fr *c01Frame) *c01Cx {
	if fr == nil {
		return nil
	}
	return &c01Cx{fr.call, c01CxOf(fr.up)}
}

func c01FrameOf(cx *c01Cx) *c01Frame {
	if cx == nil {
		return nil
	}
	call, ok := cx.site.(*ssa.Call)
	if !ok {
		return nil
	}
	return &c01Frame{call, c01FrameOf(cx.up)}
}
