package main

// Rules of C05 added after the fourth round of independently written breaking changes (DESIGN 11.12); wired in
// zzz_round4.go.
//
// C05.R1 (round trip of the weight FIELD): the text rendering of a table - what (route.Table).String() produces - is
// re-read by the parser, and the parser's 'weight <w>' ends in the field of route.Target that a target under
// construction receives from the parsed command (RouteDef's weight -> Target.FixedWeight today; the field is DERIVED
// from the add path, not named). So in the rendering Table.String() selects, the number printed after the keyword
// 'weight' must be a load of that field. Target has a second weight - the effective share computed by the weighing
// pass - which equals the configured one only while the fixed weights of a route need no normalisation; printing it
// makes NewTable(t.String()) rebuild targets with other fixed weights.
//
// C05.D2 (a removal applies its selection to EVERY target): 'route del' removes all the targets its arguments select,
// and a route may hold several targets of one service with one URL (they differ in tags or fixed weight). Wherever
// targets are removed from a route (a store to Route.Targets that is not an append to it) the removal must be a
// complete pass: a filter whose loop examines every target (leaves only at exhaustion, decides each target on its
// own), slices.DeleteFunc, or a one-element cut inside a loop that goes on after the cut; and the predicate handed
// to the removal must not remember earlier matches.

import (
	"go/token"
	"go/types"
	"regexp"
	"strings"

	"golang.org/x/tools/go/ssa"
)

func init() {
	const weightOld = "\tif addWeight {\n\t\ts += fmt.Sprintf(\" weight %2.4f\", t.Weight)\n\t} else if t.FixedWeight > 0 {\n\t\ts += fmt.Sprintf(\" weight %.4f\", t.FixedWeight)\n\t}\n"
	addRound4("C05", "(R1) in the rendering that Table.String() selects (boolean display flags are followed from its call chain), the number printed after the keyword 'weight' is a load of the Target field that the add path fills from the parsed command's weight (FixedWeight, derived), never another weight field of Target (the effective share Weight), so that re-parsing the text rebuilds the same fixed weights.", runC05R1,
		mutant{Name: "R1: effective share concatenated after the weight keyword", File: "route/route.go", Old: weightOld,
			New: "\tif addWeight || t.FixedWeight > 0 {\n\t\ts += \" weight \" + strconv.FormatFloat(t.Weight, 'f', 4, 64)\n\t}\n", Expect: "C05.R1"},
		mutant{Name: "R1: the two weights picked with the flag the wrong way round", File: "route/route.go", Old: weightOld,
			New: "\tw := t.Weight\n\tif addWeight {\n\t\tw = t.FixedWeight\n\t}\n\tif addWeight || t.FixedWeight > 0 {\n\t\ts += fmt.Sprintf(\" weight %.4f\", w)\n\t}\n", Expect: "C05.R1"},
		mutant{Name: "R1: a helper returns the effective share for fixed-weight targets", File: "route/route.go", Old: weightOld,
			New:  "\tif w := t.shownWeight(addWeight); w > 0 {\n\t\ts += fmt.Sprintf(\" weight %.4f\", w)\n\t}\n",
			More: []repl{{"func (r *Route) TargetConfig(", "func (t *Target) shownWeight(effective bool) float64 {\n\tif effective || t.FixedWeight > 0 {\n\t\treturn t.Weight\n\t}\n\treturn 0\n}\n\nfunc (r *Route) TargetConfig("}}, Expect: "C05.R1"},
		mutant{Name: "benign: R1: the two Sprintf lines merged correctly (value picked by the flag)", File: "route/route.go", Old: weightOld,
			New: "\tw := t.FixedWeight\n\tif addWeight {\n\t\tw = t.Weight\n\t}\n\tif addWeight || t.FixedWeight > 0 {\n\t\ts += fmt.Sprintf(\" weight %.4f\", w)\n\t}\n", Expect: ""},
		mutant{Name: "benign: R1: weight clause rendered by a helper that is handed the right field", File: "route/route.go", Old: weightOld,
			New:  "\tif addWeight {\n\t\ts += weightClause(t.Weight)\n\t} else if t.FixedWeight > 0 {\n\t\ts += weightClause(t.FixedWeight)\n\t}\n",
			More: []repl{{"func (r *Route) TargetConfig(", "func weightClause(w float64) string {\n\treturn \" weight \" + strconv.FormatFloat(w, 'f', 4, 64)\n}\n\nfunc (r *Route) TargetConfig("}}, Expect: ""},
		mutant{Name: "benign: R1: configured weight read through an accessor, written piecewise", File: "route/route.go", Old: weightOld,
			New:  "\tswitch {\n\tcase addWeight:\n\t\ts += fmt.Sprint(\" weight \", strconv.FormatFloat(t.Weight, 'f', 4, 64))\n\tcase t.configured() > 0:\n\t\ts += fmt.Sprint(\" weight \", strconv.FormatFloat(t.configured(), 'f', 4, 64))\n\t}\n",
			More: []repl{{"func (r *Route) TargetConfig(", "func (t *Target) configured() float64 { return t.FixedWeight }\n\nfunc (r *Route) TargetConfig("}}, Expect: ""},
	)

	const filterOld = "\tvar clone []*Target\n\tfor _, t := range r.Targets {\n\t\tif skip(t) {\n\t\t\tcontinue\n\t\t}\n\t\tclone = append(clone, t)\n\t}\n\tr.Targets = clone\n"
	const delOld = "\t\tr.filter(func(tg *Target) bool {\n\t\t\treturn tg.Service == d.Service && tg.URL.String() == targetURL.String()\n\t\t})\n"
	addRound4("C05", "(D2) wherever targets are removed from a route (a store to Route.Targets that is not an append to it) the selection is applied to every target: a filtered list is built by a loop that is left only when the targets are exhausted and whose decisions do not depend on a flag or counter carried from earlier targets, a one-element cut (append(x[:i], x[i+1:]...), slices.Delete) sits in a loop over the same route that goes on after the cut (in that function or, travelling up the call sites, in every caller), and a predicate handed to the removal does not decide by a captured variable it writes itself; a route can hold several targets of one service and URL (different tags or fixed weight), so 'first match only' leaves targets of a deleted instance in service.", runC05D2,
		mutant{Name: "D2: filter drops at most one target (flag carried through the loop)", File: "route/route.go", Old: filterOld,
			New: "\tvar clone []*Target\n\tremoved := false\n\tfor _, t := range r.Targets {\n\t\tif !removed && skip(t) {\n\t\t\tremoved = true\n\t\t\tcontinue\n\t\t}\n\t\tclone = append(clone, t)\n\t}\n\tr.Targets = clone\n", Expect: "C05.D2"},
		mutant{Name: "D2: filter copies the rest after the first match and stops", File: "route/route.go", Old: filterOld,
			New: "\tvar clone []*Target\n\tfor i, t := range r.Targets {\n\t\tif skip(t) {\n\t\t\tclone = append(clone, r.Targets[i+1:]...)\n\t\t\tbreak\n\t\t}\n\t\tclone = append(clone, t)\n\t}\n\tr.Targets = clone\n", Expect: "C05.D2"},
		mutant{Name: "D2: index of the first match, then one cut", File: "route/route.go", Old: filterOld,
			New: "\tidx := -1\n\tfor i, t := range r.Targets {\n\t\tif skip(t) {\n\t\t\tidx = i\n\t\t\tbreak\n\t\t}\n\t}\n\tif idx >= 0 {\n\t\tr.Targets = append(r.Targets[:idx:idx], r.Targets[idx+1:]...)\n\t}\n", Expect: "C05.D2"},
		mutant{Name: "D2: del predicate remembers that it matched", File: "route/table.go", Old: delOld,
			New: "\t\tdone := false\n\t\tr.filter(func(tg *Target) bool {\n\t\t\tif done || tg.Service != d.Service || tg.URL.String() != targetURL.String() {\n\t\t\t\treturn false\n\t\t\t}\n\t\t\tdone = true\n\t\t\treturn true\n\t\t})\n", Expect: "C05.D2"},
		mutant{Name: "benign: D2: helper that stringifies the URL once and removes ALL matching targets", File: "route/table.go", Old: delOld,
			New:  "\t\tr.remove(d.Service, targetURL.String())\n",
			More: []repl{{"// route finds the route for host/path", "// remove deletes the targets of the service instance with the given url.\nfunc (r *Route) remove(service, targetURL string) {\n\tr.filter(func(t *Target) bool { return t.Service == service && t.URL.String() == targetURL })\n}\n\n// route finds the route for host/path"}}, Expect: ""},
		mutant{Name: "benign: D2: in-place deletion walking backwards", File: "route/route.go", Old: filterOld,
			New: "\tfor i := len(r.Targets) - 1; i >= 0; i-- {\n\t\tif skip(r.Targets[i]) {\n\t\t\tr.Targets = append(r.Targets[:i:i], r.Targets[i+1:]...)\n\t\t}\n\t}\n", Expect: ""},
		mutant{Name: "benign: D2: in-place compaction, nothing re-allocated", File: "route/route.go", Old: filterOld,
			New: "\tn := 0\n\tfor _, t := range r.Targets {\n\t\tif !skip(t) {\n\t\t\tr.Targets[n] = t\n\t\t\tn++\n\t\t}\n\t}\n\tr.Targets = r.Targets[:n]\n", Expect: ""},
		mutant{Name: "benign: D2: early out when nothing matches, then the full filter", File: "route/route.go", Old: filterOld,
			New: "\tfound := false\n\tfor _, t := range r.Targets {\n\t\tif skip(t) {\n\t\t\tfound = true\n\t\t\tbreak\n\t\t}\n\t}\n\tif !found {\n\t\treturn\n\t}\n" + filterOld, Expect: ""},
		mutant{Name: "benign: D2: del predicate counts what it removes", File: "route/table.go", Old: delOld,
			New: "\t\tn := 0\n\t\tr.filter(func(tg *Target) bool {\n\t\t\tif tg.Service == d.Service && tg.URL.String() == targetURL.String() {\n\t\t\t\tn++\n\t\t\t\treturn true\n\t\t\t}\n\t\t\treturn false\n\t\t})\n\t\t_ = n\n", Expect: ""},
	)
}

// ---- small shared pieces ---------------------------------------------------------------------------------------

func c05IsFloat(t types.Type) bool {
	b, ok := t.Underlying().(*types.Basic)
	return ok && b.Info()&types.IsFloat != 0
}

func c05IsScalar(t types.Type) bool {
	b, ok := t.Underlying().(*types.Basic)
	return ok && b.Info()&(types.IsBoolean|types.IsNumeric) != 0
}

// c05FieldLoad: v is a load of a field of a value whose named type is typ; the field's name.
func c05FieldLoad(v ssa.Value, typ string) (string, bool) {
	switch x := v.(type) {
	case *ssa.UnOp:
		if fa, ok := x.X.(*ssa.FieldAddr); ok && x.Op == token.MUL && namedIs(fa.X.Type(), typ) {
			return fieldName(fa.X.Type(), fa.Field), true
		}
	case *ssa.Field:
		if namedIs(x.X.Type(), typ) {
			return fieldName(x.X.Type(), x.Field), true
		}
	}
	return "", false
}

// c05VariadicElems: the elements of a variadic argument built in place (a slice of a local array), in order.
func c05VariadicElems(v ssa.Value) []ssa.Value {
	sl, ok := v.(*ssa.Slice)
	if !ok {
		return nil
	}
	arr, ok := sl.X.(*ssa.Alloc)
	if !ok {
		return nil
	}
	vals, _ := c05ArrayElems(arr)
	return vals
}

func c05UnionFacts(a, b []Fact) []Fact {
	out := make([]Fact, 0, len(a)+len(b))
	out = append(out, a...)
	return append(out, b...)
}

// ---- R1: which rendering Table.String() selects -------------------------------------------------------------------

// c05Mode: the functions reachable from a root through static calls, and for each of their boolean parameters the
// values it can have on those call chains (0 false, 1 true, 2 unknown).
type c05Mode struct {
	reach map[*ssa.Function]bool
	vals  map[*ssa.Parameter]map[int]bool
	// the same for integer parameters (a display mode passed as an enumeration instead of a flag): the constants the
	// parameter can be on the call chains; c05IntUnknown stands for "anything"
	ivals map[*ssa.Parameter]map[c05IntVal]bool
}

type c05IntVal struct {
	k   int64
	unk bool
}

var c05IntUnknown = c05IntVal{unk: true}

func c05IsInt(t types.Type) bool {
	b, ok := t.Underlying().(*types.Basic)
	return ok && b.Info()&types.IsInteger != 0
}

func (m *c05Mode) iadd(p *ssa.Parameter, v c05IntVal) bool {
	s := m.ivals[p]
	if s == nil {
		s = map[c05IntVal]bool{}
		m.ivals[p] = s
	}
	if s[v] {
		return false
	}
	s[v] = true
	return true
}

func (m *c05Mode) ieval(v ssa.Value) map[c05IntVal]bool {
	v = c05StripConv(v)
	if k, ok := constInt(v); ok {
		return map[c05IntVal]bool{{k: k}: true}
	}
	if p, ok := v.(*ssa.Parameter); ok {
		return m.ivals[p] // nothing known yet: filled in by a later round
	}
	return map[c05IntVal]bool{c05IntUnknown: true}
}

func c05IsBool(t types.Type) bool {
	b, ok := t.Underlying().(*types.Basic)
	return ok && b.Info()&types.IsBoolean != 0
}

func c05ModeFrom(root *ssa.Function) *c05Mode {
	m := &c05Mode{reach: map[*ssa.Function]bool{}, vals: map[*ssa.Parameter]map[int]bool{}, ivals: map[*ssa.Parameter]map[c05IntVal]bool{}}
	var order []*ssa.Function
	changed := false
	enter := func(f *ssa.Function, unknown bool) {
		if f == nil || len(f.Blocks) == 0 || !isRepoFn(f) {
			return
		}
		if unknown {
			for _, p := range f.Params {
				if c05IsBool(p.Type()) && m.add(p, 2) {
					changed = true
				}
				if c05IsInt(p.Type()) && m.iadd(p, c05IntUnknown) {
					changed = true
				}
			}
		}
		if !m.reach[f] {
			m.reach[f] = true
			order = append(order, f)
			changed = true
		}
	}
	enter(root, true)
	for rounds := 0; changed && rounds < 12; rounds++ {
		changed = false
		for k := 0; k < len(order); k++ {
			eachInstr(order[k], func(i ssa.Instruction) {
				cc := callCommon(i)
				var callee *ssa.Function
				if cc != nil && !cc.IsInvoke() {
					callee = cc.StaticCallee()
				}
				for _, op := range i.Operands(nil) {
					if op == nil || *op == nil {
						continue
					}
					var g *ssa.Function
					switch x := (*op).(type) {
					case *ssa.Function:
						g = x
					case *ssa.MakeClosure:
						g, _ = x.Fn.(*ssa.Function)
					}
					if g == nil {
						continue
					}
					// in callee position the flags come from the arguments; a function used as a value can be
					// called with anything
					called := callee != nil && *op == cc.Value && unwrap(g) == g
					enter(unwrap(g), !called)
				}
				if callee == nil || unwrap(callee) != callee || !m.reach[callee] {
					return
				}
				if i.Block() != nil {
					if excluded, _ := m.judge(factsAt(i.Block())); excluded {
						return // a call the root's rendering never makes (under `if addWeight` today) passes no values
					}
				}
				for j, p := range callee.Params {
					if j < len(cc.Args) && c05IsInt(p.Type()) {
						for v := range m.ieval(cc.Args[j]) {
							if m.iadd(p, v) {
								changed = true
							}
						}
					}
					if !c05IsBool(p.Type()) || j >= len(cc.Args) {
						continue
					}
					for v := range m.eval(cc.Args[j]) {
						if m.add(p, v) {
							changed = true
						}
					}
				}
			})
		}
	}
	return m
}

func (m *c05Mode) add(p *ssa.Parameter, v int) bool {
	s := m.vals[p]
	if s == nil {
		s = map[int]bool{}
		m.vals[p] = s
	}
	if s[v] {
		return false
	}
	s[v] = true
	return true
}

func (m *c05Mode) eval(v ssa.Value) map[int]bool {
	if b, ok := constBool(v); ok {
		if b {
			return map[int]bool{1: true}
		}
		return map[int]bool{0: true}
	}
	switch x := v.(type) {
	case *ssa.Parameter:
		if s := m.vals[x]; len(s) > 0 {
			return s
		}
		return map[int]bool{} // nothing known yet (filled in by a later round)
	case *ssa.UnOp:
		if x.Op == token.NOT {
			out := map[int]bool{}
			for k := range m.eval(x.X) {
				if k == 2 {
					out[2] = true
				} else {
					out[1-k] = true
				}
			}
			return out
		}
	}
	return map[int]bool{2: true}
}

// excluded: the facts contradict what the boolean parameters are on the call chains from the root.
// unknownFlag: the facts test a boolean that is neither a comparison nor a parameter with known values (a display
// flag kept in a field or a captured variable): the path may or may not belong to the root's rendering.
func (m *c05Mode) judge(facts []Fact) (excluded, unknownFlag bool) {
	for _, ft := range facts {
		switch x := ft.Cond.(type) {
		case *ssa.Parameter:
			s := m.vals[x]
			if len(s) == 0 || s[2] {
				unknownFlag = true
				continue
			}
			want := 0
			if ft.Truth {
				want = 1
			}
			if !s[want] {
				excluded = true
			}
		case *ssa.UnOp:
			if x.Op == token.MUL && c05IsBool(x.Type()) {
				if _, isTarget := c05FieldLoad(x, "route.Target"); !isTarget {
					unknownFlag = true
				}
			}
		case *ssa.Field:
			if c05IsBool(x.Type()) && !namedIs(x.X.Type(), "route.Target") {
				unknownFlag = true
			}
		case *ssa.BinOp:
			// mode == effective / switch mode { case configured: ... }: an integer parameter against a constant
			if x.Op != token.EQL && x.Op != token.NEQ {
				continue
			}
			a, b := c05StripConv(x.X), c05StripConv(x.Y)
			if _, isK := constInt(a); isK {
				a, b = b, a
			}
			p, isP := a.(*ssa.Parameter)
			k, isK := constInt(b)
			if !isP || !isK || !c05IsInt(p.Type()) {
				continue
			}
			s := m.ivals[p]
			if len(s) == 0 || s[c05IntUnknown] {
				unknownFlag = true
				continue
			}
			if (x.Op == token.EQL) == ft.Truth {
				if !s[c05IntVal{k: k}] {
					excluded = true // the path needs p == k, and p is never k in this rendering
				}
			} else if len(s) == 1 && s[c05IntVal{k: k}] {
				excluded = true // the path needs p != k, and p is always k
			}
		}
	}
	return
}

// c05ConfiguredWeightFields: the floating-point fields of route.Target that a target under construction receives
// from a floating-point field of the parsed command (route.RouteDef): where 'weight <w>' of a command ends.
func c05ConfiguredWeightFields(c *Ctx) map[string]bool {
	out := map[string]bool{}
	fromCmd := func(v ssa.Value) bool {
		_, ok := c05FieldLoad(v, "route.RouteDef")
		return ok && c05IsFloat(v.Type())
	}
	for _, f := range c.fnsWhere("route", func(*ssa.Function) bool { return true }) {
		eachInstr(f, func(i ssa.Instruction) {
			st, ok := i.(*ssa.Store)
			if !ok || !c05IsFloat(st.Val.Type()) {
				return
			}
			fa, ok := st.Addr.(*ssa.FieldAddr)
			if !ok || !namedIs(fa.X.Type(), "route.Target") {
				return
			}
			if _, fresh := fa.X.(*ssa.Alloc); !fresh {
				return
			}
			if derives(st.Val, fromCmd) {
				out[fieldName(fa.X.Type(), fa.Field)] = true
			}
		})
	}
	return out
}

// c05WeightThenVerb: a format in which the keyword 'weight' is directly followed by a verb and preceded by a verb (the
// command so far), as in "%s weight %.4f"; log messages ("[WARN] invalid weight %s") do not begin with a verb.
var c05WeightThenVerb = regexp.MustCompile(`^%[-+# 0]*[0-9]*[sv] (.* )?weight[ =]%`)

// c05WeightKeywordAt: the position just behind the keyword 'weight' in a piece of command text, -1 if it has none.
func c05WeightKeywordAt(s string) int {
	has := false
	for _, k := range c05FragmentKeywords(s) {
		if c05Keywords[k] == "weight" {
			has = true
		}
	}
	if !has && !c05WeightThenVerb.MatchString(s) {
		// not a piece of command text by the G1 criterion (it does not BEGIN with a keyword), but a format that
		// continues a command: "%s weight %.4f"
		return -1
	}
	from := 0
	for {
		p := strings.Index(s[from:], "weight")
		if p < 0 {
			return -1
		}
		p += from
		end := p + len("weight")
		if (p == 0 || s[p-1] == ' ') && (end == len(s) || s[end] == ' ' || s[end] == '=') {
			return end
		}
		from = end
	}
}

// c05PrintedAfterWeight: the values an instruction that writes the keyword 'weight' (it uses the constant s) prints
// right after it: the argument of the first verb behind the keyword in a format string, the right operand of a
// concatenation, the next piece of a Sprint / append / literal list, the next write to the same builder.
func c05PrintedAfterWeight(i ssa.Instruction, s string) []ssa.Value {
	end := c05WeightKeywordAt(s)
	if end < 0 {
		return nil
	}
	isConst := func(v ssa.Value) bool {
		if mi, ok := v.(*ssa.MakeInterface); ok {
			v = mi.X
		}
		t, ok := constString(v)
		return ok && t == s
	}
	// the piece that follows a constant in a list of pieces
	nextIn := func(list []ssa.Value) []ssa.Value {
		for k, e := range list {
			if isConst(e) && k+1 < len(list) {
				return []ssa.Value{list[k+1]}
			}
		}
		return nil
	}
	verbsBefore, verbBehind := 0, false
	for _, loc := range c05Verb.FindAllStringIndex(s, -1) {
		if strings.HasSuffix(s[loc[0]:loc[1]], "%") {
			continue // %%
		}
		if loc[0] < end {
			verbsBefore++
		} else {
			verbBehind = true
		}
	}
	switch x := i.(type) {
	case *ssa.BinOp:
		if x.Op != token.ADD {
			return nil
		}
		if isConst(x.X) {
			return []ssa.Value{x.Y}
		}
		// (s + " weight ") + w
		var out []ssa.Value
		if refs := x.Referrers(); refs != nil && isConst(x.Y) {
			for _, r := range *refs {
				if b, ok := r.(*ssa.BinOp); ok && b.Op == token.ADD && b.X == ssa.Value(x) {
					out = append(out, b.Y)
				}
			}
		}
		return out
	case *ssa.MakeInterface, *ssa.Store:
		// a piece of a variadic / literal list: find the array it is stored into
		var st *ssa.Store
		if s2, ok := x.(*ssa.Store); ok {
			st = s2
		} else if refs := x.(ssa.Value).Referrers(); refs != nil {
			for _, r := range *refs {
				if s2, ok := r.(*ssa.Store); ok && s2.Val == x.(ssa.Value) {
					st = s2
				}
			}
		}
		if st == nil {
			return nil
		}
		ia, ok := st.Addr.(*ssa.IndexAddr)
		if !ok {
			return nil
		}
		arr, ok := ia.X.(*ssa.Alloc)
		if !ok {
			return nil
		}
		vals, _ := c05ArrayElems(arr)
		return nextIn(vals)
	}
	cc := callCommon(i)
	if cc == nil {
		return nil
	}
	var flat []ssa.Value
	for k, a := range cc.Args {
		if k == len(cc.Args)-1 {
			if els := c05VariadicElems(a); els != nil {
				if verbBehind {
					if verbsBefore < len(els) {
						return []ssa.Value{els[verbsBefore]}
					}
					return nil
				}
				flat = append(flat, els...)
				continue
			}
		}
		flat = append(flat, a)
	}
	if out := nextIn(flat); out != nil {
		return out
	}
	// w.WriteString(" weight ") ; w.WriteString(<number>) / fmt.Fprint(w, <number>): the next write to the same sink
	if len(cc.Args) == 0 || i.Block() == nil {
		return nil
	}
	sink := accessPath(cc.Args[0])
	instrs := i.Block().Instrs
	for k := instrIndex(i) + 1; k >= 1 && k < len(instrs); k++ {
		c2 := callCommon(instrs[k])
		if c2 == nil || len(c2.Args) < 2 {
			continue
		}
		same := false
		for _, a := range c2.Args {
			if accessPath(a) == sink {
				same = true
			}
		}
		if !same {
			continue
		}
		var out []ssa.Value
		for _, a := range c2.Args[1:] {
			if els := c05VariadicElems(a); els != nil {
				out = append(out, els...)
			} else {
				out = append(out, a)
			}
		}
		return out
	}
	return nil
}

// c05WeightLeaves follows a printed value back to the loads of floating-point Target fields it can be, each with
// the branch conditions under which it is that load.
type c05WeightLeaf struct {
	field string
	facts []Fact
	pos   token.Pos
}

type c05LeafWalk struct {
	m      *c05Mode
	leaves []c05WeightLeaf
	seen   map[ssa.Value]int
}

func (w *c05LeafWalk) walk(v ssa.Value, facts []Fact, depth int) {
	if v == nil || depth > 14 || w.seen[v] > 3 {
		return
	}
	w.seen[v]++
	if f, ok := c05FieldLoad(v, "route.Target"); ok {
		if c05IsFloat(v.Type()) {
			w.leaves = append(w.leaves, c05WeightLeaf{f, facts, v.Pos()})
		}
		return
	}
	switch x := v.(type) {
	case *ssa.MakeInterface:
		w.walk(x.X, facts, depth+1)
	case *ssa.Convert:
		w.walk(x.X, facts, depth+1)
	case *ssa.ChangeType:
		w.walk(x.X, facts, depth+1)
	case *ssa.BinOp:
		w.walk(x.X, facts, depth+1)
		w.walk(x.Y, facts, depth+1)
	case *ssa.Phi:
		for k, e := range x.Edges {
			if k < len(x.Block().Preds) {
				w.walk(e, c05UnionFacts(facts, edgeFacts(x.Block().Preds[k], x.Block())), depth+1)
			}
		}
	case *ssa.UnOp:
		if x.Op != token.MUL {
			w.walk(x.X, facts, depth+1)
			return
		}
		if vals, ok := c05CellStores(x.X); ok {
			for _, sv := range vals {
				fs := facts
				if in, isIn := sv.(ssa.Instruction); isIn && in.Block() != nil {
					fs = c05UnionFacts(facts, factsAt(in.Block()))
				}
				w.walk(sv, fs, depth+1)
			}
		}
	case *ssa.Extract:
		w.walk(x.Tuple, facts, depth+1)
	case *ssa.Parameter:
		fn := x.Parent()
		idx := -1
		for k, p := range fn.Params {
			if p == x {
				idx = k
			}
		}
		for _, s := range gSites[fn] {
			if s.Parent() == nil || !w.m.reach[s.Parent()] || s.Block() == nil {
				continue
			}
			if cc := s.Common(); idx >= 0 && idx < len(cc.Args) {
				w.walk(cc.Args[idx], c05UnionFacts(facts, factsAt(s.Block())), depth+1)
			}
		}
	case *ssa.Call:
		n := calleeName(&x.Call)
		if sc := unwrapCallee(&x.Call); sc != nil && isRepoFn(sc) && len(sc.Blocks) > 0 && !x.Call.IsInvoke() {
			eachInstr(sc, func(i ssa.Instruction) {
				if r, ok := i.(*ssa.Return); ok {
					for _, res := range r.Results {
						if c05IsFloat(res.Type()) || isStringType(res.Type()) {
							w.walk(res, c05UnionFacts(facts, localFactsAt(r.Block())), depth+1)
						}
					}
				}
			})
			return
		}
		if x.Call.StaticCallee() == nil && !x.Call.IsInvoke() {
			// a selector handed down as a function value: every function it can be
			for _, g := range w.funcs(x.Call.Value, 0) {
				if len(g.Blocks) == 0 {
					continue
				}
				eachInstr(g, func(i ssa.Instruction) {
					if r, ok := i.(*ssa.Return); ok {
						for _, res := range r.Results {
							if c05IsFloat(res.Type()) || isStringType(res.Type()) {
								w.walk(res, c05UnionFacts(facts, localFactsAt(r.Block())), depth+1)
							}
						}
					}
				})
			}
			return
		}
		if isTransparent(n) || strings.HasPrefix(n, "builtin.") || strings.HasPrefix(n, "math.") {
			for k, a := range x.Call.Args {
				if k == len(x.Call.Args)-1 {
					if els := c05VariadicElems(a); els != nil {
						for _, e := range els {
							w.walk(e, facts, depth+1)
						}
						continue
					}
				}
				w.walk(a, facts, depth+1)
			}
		}
	}
}

// funcs: the repository functions a function-typed value can be on the call chains from the root: a parameter is
// followed to the call sites in functions the root reaches.
func (w *c05LeafWalk) funcs(v ssa.Value, depth int) []*ssa.Function {
	p, ok := v.(*ssa.Parameter)
	if !ok || depth > 3 {
		return funcsOf(v)
	}
	var out []*ssa.Function
	fn := p.Parent()
	for k, q := range fn.Params {
		if q != p {
			continue
		}
		for _, s := range gSites[fn] {
			if s.Parent() == nil || !w.m.reach[s.Parent()] {
				continue
			}
			if cc := s.Common(); k < len(cc.Args) {
				out = append(out, w.funcs(cc.Args[k], depth+1)...)
			}
		}
	}
	return out
}

func runC05R1(c *Ctx) {
	const rule = "C05.R1"
	root := c.method("route", "Table", "String")
	if root == nil || root.Signature.Params().Len() != 0 || root.Signature.Results().Len() != 1 {
		c.undecided(rule, "anchor|text rendering of a table", "route.Table has no String() string method: the rendering the parser must accept was not found")
		return
	}
	configured := c05ConfiguredWeightFields(c)
	if len(configured) == 0 {
		c.undecided(rule, "anchor|field that holds a command's weight", "no floating-point field of route.Target is filled from a floating-point field of route.RouteDef where a target is constructed")
		return
	}
	var names []string
	for n := range configured {
		names = append(names, "Target."+n)
	}
	want := strings.Join(names, " / ")
	m := c05ModeFrom(root)
	nClauses, nLocated, nGood := 0, 0, 0
	var first token.Pos
	for _, f := range c.fnsWhere("route", func(f *ssa.Function) bool { return m.reach[f] }) {
		eachInstr(f, func(i ssa.Instruction) {
			for _, s := range c05ConstOperands(i) {
				if c05WeightKeywordAt(s) < 0 {
					continue
				}
				if cc := callCommon(i); cc != nil && strings.HasPrefix(calleeName(cc), "log.") {
					continue
				}
				site := factsAt(i.Block())
				if excluded, _ := m.judge(site); excluded {
					continue // not part of the rendering Table.String() selects (addWeight == true today)
				}
				nClauses++
				if !first.IsValid() {
					first = i.Pos()
				}
				vals := c05PrintedAfterWeight(i, s)
				w := &c05LeafWalk{m: m, seen: map[ssa.Value]int{}}
				for _, v := range vals {
					w.walk(v, site, 0)
				}
				if len(w.leaves) > 0 {
					nLocated++
				}
				for _, lf := range w.leaves {
					excluded, unknownFlag := m.judge(lf.facts)
					if excluded {
						continue
					}
					if configured[lf.field] {
						nGood++
						c.check(rule, fnKey(f)+"|number after 'weight' is the configured weight", lf.pos, true, "prints "+want)
						continue
					}
					if unknownFlag {
						continue // guarded by a display flag that cannot be followed from Table.String()
					}
					pos := lf.pos
					if !pos.IsValid() {
						pos = i.Pos()
					}
					c.check(rule, fnKey(f)+"|number after 'weight' is the configured weight", pos, false,
						"the text Table.String() renders is re-read by the parser, and 'route add ... weight <w>' sets "+want+" of the new target; this weight clause can print Target."+lf.field+
							" (the effective share after normalisation) in that rendering, so NewTable(t.String()) rebuilds targets with other fixed weights whenever the fixed weights of a route do not already sum to 1 (a single target with weight 0.05 comes back as 1.0; 0.2 + 0.3 as 0.4 + 0.6, and a target added later gets no traffic)")
				}
			}
		})
	}
	c.atLeast(rule, "weight clauses in the rendering of Table.String()", nClauses, 1)
	if nClauses > 0 {
		c.atLeast(rule, "weight clauses whose printed number could be followed to a Target field", nLocated, 1)
	}
	if nLocated > 0 {
		c.check(rule, fnKey(root)+"|rendering carries the configured weight", first, nGood >= 1,
			"the text Table.String() renders must carry the configured weight ("+want+") after the keyword 'weight': no weight clause of that rendering prints it")
	}
}

// ---- D2: a removal applies its selection to every target ------------------------------------------------------------

// c05IsCut: the stored list is the old one minus ONE stretch chosen by index: append(x[:i], x[j:]...),
// slices.Delete(x, i, j), x[:len(x)-k], x[k:].
func c05IsCut(v ssa.Value) bool {
	switch x := v.(type) {
	case *ssa.Call:
		n := c05Name(&x.Call)
		if n == "slices.Delete" {
			return true
		}
		if n == "builtin.append" && len(x.Call.Args) == 2 {
			a, okA := x.Call.Args[0].(*ssa.Slice)
			b, okB := x.Call.Args[1].(*ssa.Slice)
			return okA && okB && a.High != nil && b.Low != nil
		}
	case *ssa.Slice:
		if x.High == nil && x.Low != nil {
			return true
		}
		if b, ok := x.High.(*ssa.BinOp); ok && b.Op == token.SUB {
			if _, isK := constInt(b.Y); isK {
				if call, isCall := b.X.(*ssa.Call); isCall && calleeName(&call.Call) == "builtin.len" {
					return true
				}
			}
		}
	}
	return false
}

// c05HelperCuts: v is the result of a repository helper that returns its list minus ONE stretch
// (func dropAt(ts, i) { return append(ts[:i], ts[i+1:]...) }, or a search loop that returns the cut at the first match).
func c05HelperCuts(v ssa.Value) bool {
	call, ok := c05StripConv(v).(*ssa.Call)
	if !ok || call.Call.IsInvoke() {
		return false
	}
	sc := unwrapCallee(&call.Call)
	if sc == nil || !isRepoFn(sc) || len(sc.Blocks) == 0 {
		return false
	}
	cuts := false
	eachInstr(sc, func(i ssa.Instruction) {
		if r, isR := i.(*ssa.Return); isR {
			for _, res := range r.Results {
				if sl, isSl := res.Type().Underlying().(*types.Slice); isSl && namedIs(sl.Elem(), "route.Target") && c05IsCut(res) {
					cuts = true
				}
			}
		}
	})
	return cuts
}

func c05InnermostLoop(loops []*loop, b *ssa.BasicBlock) *loop {
	var best *loop
	for _, l := range loops {
		if l.Body[b] && (best == nil || len(l.Body) < len(best.Body)) {
			best = l
		}
	}
	return best
}

// c05LeavesLoop: from instruction e, a block outside l can be reached without going through l's header again.
func c05LeavesLoop(e ssa.Instruction, l *loop) bool {
	seen := map[*ssa.BasicBlock]bool{}
	stack := []*ssa.BasicBlock{e.Block()}
	first := true
	for len(stack) > 0 {
		b := stack[len(stack)-1]
		stack = stack[:len(stack)-1]
		if !first && (seen[b] || b == l.Head) {
			continue
		}
		if !first {
			seen[b] = true
		}
		first = false
		for _, s := range b.Succs {
			if !l.Body[s] {
				return true
			}
			stack = append(stack, s)
		}
	}
	return false
}

func c05Invariant(v ssa.Value, l *loop) bool {
	if v == nil {
		return true
	}
	switch x := v.(type) {
	case *ssa.UnOp:
		if x.Op == token.MUL {
			if _, cell := x.X.(*ssa.Alloc); cell {
				// a local variable re-read in the loop: invariant when it is not assigned in the loop
				vals, ok := c05CellStores(x.X)
				if !ok {
					return false
				}
				for _, sv := range vals {
					if in, isIn := sv.(ssa.Instruction); isIn && in.Block() != nil && in.Parent() == l.Head.Parent() && l.Body[in.Block()] {
						return false
					}
				}
				return true
			}
			return c05Invariant(x.X, l)
		}
	case *ssa.FieldAddr:
		return c05Invariant(x.X, l)
	}
	if in, ok := v.(ssa.Instruction); ok && in.Block() != nil && in.Parent() == l.Head.Parent() {
		return !l.Body[in.Block()]
	}
	return true // parameter, captured variable, global, constant
}

// c05CutRepeats: the one-element removal at e (on the route base) sits in a loop over that same route which goes on
// after it - here or, when e's function does it once per call, at every call site.
func c05CutRepeats(e ssa.Instruction, base ssa.Value, depth int) bool {
	fn := e.Parent()
	if fn == nil || e.Block() == nil {
		return false
	}
	for _, l := range loopsOf(fn) {
		if l.Body[e.Block()] && c05Invariant(base, l) && !c05LeavesLoop(e, l) {
			return true
		}
	}
	if depth >= 2 {
		return false
	}
	sites := c05Sites(fn)
	if len(sites) == 0 {
		return false
	}
	for _, s := range sites {
		var up ssa.Value
		if p, ok := base.(*ssa.Parameter); ok {
			if cc := callCommon(s); cc != nil {
				for k, q := range fn.Params {
					if q == p && k < len(cc.Args) {
						up = cc.Args[k]
					}
				}
			}
		}
		if up == nil {
			return false // the route is not a parameter: the caller cannot repeat the cut on the same route
		}
		if !c05CutRepeats(s, up, depth+1) {
			return false
		}
	}
	return true
}

// c05LocalDeps: the values cond is computed from inside its function (no calls entered).
func c05LocalDeps(v ssa.Value, visit func(ssa.Value) bool) {
	seen := map[ssa.Value]bool{}
	var walk func(x ssa.Value, d int)
	walk = func(x ssa.Value, d int) {
		if x == nil || seen[x] || d > 16 {
			return
		}
		seen[x] = true
		if !visit(x) {
			return
		}
		in, ok := x.(ssa.Instruction)
		if !ok {
			return
		}
		if _, isAlloc := x.(*ssa.Alloc); isAlloc {
			return
		}
		for _, op := range in.Operands(nil) {
			if op != nil && *op != nil {
				walk(*op, d+1)
			}
		}
	}
	walk(v, 0)
}

// c05FilterLoopDefect: what is wrong with loop l as the loop that selects the targets to keep; "" if nothing.
func c05FilterLoopDefect(l *loop) string {
	// (a) left only when the targets are exhausted
	for b := range l.Body {
		if b == l.Head {
			continue
		}
		for _, s := range b.Succs {
			if !l.Body[s] {
				return "the loop that selects the targets can be left (break / return) before every target was examined"
			}
		}
	}
	// (b) each target decided on its own: no branch in the loop tests a flag or counter carried from earlier targets
	induction := map[ssa.Value]bool{}
	if n := len(l.Head.Instrs); n > 0 {
		if iff, ok := l.Head.Instrs[n-1].(*ssa.If); ok {
			c05LocalDeps(iff.Cond, func(x ssa.Value) bool {
				if p, isPhi := x.(*ssa.Phi); isPhi && p.Block() == l.Head {
					induction[p] = true
					return false
				}
				return true
			})
		}
	}
	defect := ""
	for b := range l.Body {
		n := len(b.Instrs)
		if b == l.Head || n == 0 {
			continue
		}
		iff, ok := b.Instrs[n-1].(*ssa.If)
		if !ok {
			continue
		}
		c05LocalDeps(iff.Cond, func(x ssa.Value) bool {
			switch y := x.(type) {
			case *ssa.Phi:
				if y.Block() == l.Head {
					if c05IsScalar(y.Type()) && !induction[y] {
						defect = "whether a target is removed depends on '" + y.Comment + "', a flag or counter carried over from the targets examined before"
					}
					return false
				}
			case *ssa.UnOp:
				if y.Op == token.MUL && c05IsScalar(y.Type()) {
					switch y.X.(type) {
					case *ssa.Alloc, *ssa.FreeVar:
						if vals, ok := c05CellStores(y.X); ok {
							for _, sv := range vals {
								if in, isIn := sv.(ssa.Instruction); isIn && in.Block() != nil && in.Parent() == b.Parent() && l.Body[in.Block()] {
									defect = "whether a target is removed depends on a variable assigned while earlier targets were examined"
								}
							}
						}
					}
				}
			}
			return true
		})
	}
	return defect
}

// c05FilterDefect: v is the list stored to Route.Targets by a removal that is not a cut; follow how it is built and
// examine the loops that build it (in fn, and in the repository helper that returns it).
func c05FilterDefect(fn *ssa.Function, v ssa.Value, depth int) string {
	built := map[ssa.Instruction]bool{}
	stored := map[ssa.Instruction]bool{} // values assigned to a variable cell that holds the list
	defect := ""
	seen := map[ssa.Value]bool{}
	var walk func(x ssa.Value, d int)
	walk = func(x ssa.Value, d int) {
		if x == nil || seen[x] || d > 20 {
			return
		}
		seen[x] = true
		if _, old := fieldOf(x, "route.Route", "Targets"); old {
			if _, isLoad := x.(*ssa.UnOp); isLoad {
				return // the list as it was
			}
		}
		if in, ok := x.(ssa.Instruction); ok && in.Parent() == fn {
			built[in] = true
		}
		switch y := x.(type) {
		case *ssa.Phi:
			for _, e := range y.Edges {
				walk(e, d+1)
			}
		case *ssa.ChangeType:
			walk(y.X, d+1)
		case *ssa.Convert:
			walk(y.X, d+1)
		case *ssa.BinOp:
			walk(y.X, d+1)
			walk(y.Y, d+1)
		case *ssa.Slice:
			walk(y.X, d+1)
			walk(y.Low, d+1)
			walk(y.High, d+1)
		case *ssa.UnOp:
			if y.Op == token.MUL {
				switch y.X.(type) {
				case *ssa.Alloc, *ssa.FreeVar:
					if vals, ok := c05CellStores(y.X); ok {
						for _, sv := range vals {
							if in, isIn := sv.(ssa.Instruction); isIn {
								stored[in] = true
							}
							walk(sv, d+1)
						}
					}
				}
			}
		case *ssa.Extract:
			walk(y.Tuple, d+1)
		case *ssa.Call:
			n := c05Name(&y.Call)
			switch {
			case n == "builtin.append":
				walk(y.Call.Args[0], d+1)
				if len(y.Call.Args) > 1 {
					if sl, ok := y.Call.Args[1].(*ssa.Slice); !ok || sl.Low != nil || sl.High != nil {
						walk(y.Call.Args[1], d+1)
					}
				}
			case strings.HasPrefix(n, "slices."):
				if len(y.Call.Args) > 0 {
					walk(y.Call.Args[0], d+1)
				}
			default:
				if sc := unwrapCallee(&y.Call); sc != nil && isRepoFn(sc) && len(sc.Blocks) > 0 && depth < 2 && !y.Call.IsInvoke() {
					eachInstr(sc, func(i ssa.Instruction) {
						if r, ok := i.(*ssa.Return); ok {
							for _, res := range r.Results {
								if sl, isSl := res.Type().Underlying().(*types.Slice); isSl && namedIs(sl.Elem(), "route.Target") && defect == "" {
									defect = c05FilterDefect(sc, res, depth+1)
								}
							}
						}
					})
				}
			}
		}
	}
	walk(v, 0)
	if defect != "" {
		return defect
	}
	// the loops in which the stored list (or the counter that delimits it) is accumulated: a loop-carried piece of
	// the value sits in the loop's header; for a list kept in a captured variable, the loops that assign it
	loops := loopsOf(fn)
	checked := map[*loop]bool{}
	for in := range built {
		if in.Block() == nil {
			continue
		}
		var l *loop
		switch y := in.(type) {
		case *ssa.Phi:
			for _, cand := range loops {
				if cand.Head == y.Block() {
					l = cand
				}
			}
		case *ssa.Call:
			if stored[in] {
				l = c05InnermostLoop(loops, in.Block())
			}
		}
		if l == nil || checked[l] {
			continue
		}
		checked[l] = true
		if d := c05FilterLoopDefect(l); d != "" {
			return d
		}
	}
	return ""
}

// c05StatefulPredicate: p decides (branches or returns) by a captured variable that p itself assigns.
func c05StatefulPredicate(p *ssa.Function) bool {
	written := map[*ssa.FreeVar]bool{}
	eachInstr(p, func(i ssa.Instruction) {
		if st, ok := i.(*ssa.Store); ok {
			if fv, ok := st.Addr.(*ssa.FreeVar); ok {
				if pt, ok := fv.Type().Underlying().(*types.Pointer); ok && c05IsScalar(pt.Elem()) {
					written[fv] = true
				}
			}
		}
	})
	if len(written) == 0 {
		return false
	}
	stateful := false
	reads := func(v ssa.Value) {
		c05LocalDeps(v, func(x ssa.Value) bool {
			if ld, ok := x.(*ssa.UnOp); ok && ld.Op == token.MUL {
				if fv, ok := ld.X.(*ssa.FreeVar); ok && written[fv] {
					stateful = true
				}
			}
			return true
		})
	}
	eachInstr(p, func(i ssa.Instruction) {
		switch y := i.(type) {
		case *ssa.If:
			reads(y.Cond)
		case *ssa.Return:
			for _, r := range y.Results {
				reads(r)
			}
		}
	})
	return stateful
}

// c05PredicatesOf: the repository functions a function-typed value can be at a call site, following a parameter
// that is merely handed on to the callers of that function (two levels).
func c05PredicatesOf(v ssa.Value, depth int) []*ssa.Function {
	if p, ok := v.(*ssa.Parameter); ok && depth < 2 {
		var out []*ssa.Function
		fn := p.Parent()
		for k, q := range fn.Params {
			if q != p {
				continue
			}
			for _, s := range gSites[fn] {
				if cc := s.Common(); k < len(cc.Args) {
					out = append(out, c05PredicatesOf(cc.Args[k], depth+1)...)
				}
			}
		}
		return out
	}
	return funcsOf(v)
}

func runC05D2(c *Ctx) {
	const rule = "C05.D2"
	const detail = "'route del' removes ALL targets its service/source/destination/tag arguments select, and a route can hold several targets of one service with one URL (they differ in tags or fixed weight: addTarget de-duplicates on all four); a removal that stops at the first match leaves the other targets of the deleted instance in service and keeps a route/host that had to disappear: "
	nRemovals := 0
	removers := map[*ssa.Function]bool{}
	var helperCalls []*ssa.Call // calls of repository helpers that return the list a removal stores
	done := map[ssa.Instruction]bool{}
	// a removal is judged where its list is chosen: the store, or the call of a setter that stores the list it is
	// handed (c05TargetsWrites)
	for _, w := range c05IndexWrites(c).all {
		if !w.removal || done[w.at] {
			continue
		}
		done[w.at] = true
		f := w.at.Parent()
		nRemovals++
		removers[f] = true
		construct := fnKey(f) + "|removal applies the selection to every target"
		if c05IsCut(w.val) || c05HelperCuts(w.val) {
			c.check(rule, construct, w.at.Pos(), w.base != nil && c05CutRepeats(w.at, w.base, 0),
				detail+"this store cuts ONE stretch out of Route.Targets and is not inside a loop over that route which goes on after the cut (in this function or in every caller)")
			continue
		}
		d := c05FilterDefect(f, w.val, 0)
		c.check(rule, construct, w.at.Pos(), d == "", detail+d)
		if call, ok := c05StripConv(w.val).(*ssa.Call); ok {
			if sc := unwrapCallee(&call.Call); sc != nil && isRepoFn(sc) && !call.Call.IsInvoke() {
				helperCalls = append(helperCalls, call)
			}
		}
	}
	// the predicates handed to the removals
	seen := map[*ssa.Function]bool{}
	judge := func(v ssa.Value, at ssa.Instruction) {
		for _, p := range c05PredicatesOf(v, 0) {
			if seen[p] || len(p.Blocks) == 0 {
				continue
			}
			seen[p] = true
			c.check(rule, fnKey(p)+"|selection predicate decides each target on its own", at.Pos(), !c05StatefulPredicate(p),
				detail+"the predicate handed to the removal decides by a captured variable that it assigns itself (it remembers earlier matches), so it does not select every matching target")
		}
	}
	for f := range removers {
		for _, g := range withAnon(c05TopFn(f)) {
			eachInstr(g, func(i ssa.Instruction) {
				cc := callCommon(i)
				if cc == nil {
					return
				}
				if n := c05Name(cc); n == "slices.DeleteFunc" && len(cc.Args) == 2 {
					judge(cc.Args[1], i)
				}
			})
		}
		for k, p := range f.Params {
			if _, isFn := p.Type().Underlying().(*types.Signature); !isFn {
				continue
			}
			for _, s := range gSites[f] {
				if cc := s.Common(); k < len(cc.Args) {
					judge(cc.Args[k], s)
				}
			}
		}
	}
	// predicates handed to a helper that builds the stored list (r.setTargets(without(r.Targets, pred)))
	for _, call := range helperCalls {
		for _, a := range call.Call.Args {
			if _, isFn := a.Type().Underlying().(*types.Signature); isFn {
				judge(a, call)
			}
		}
	}
	c.atLeast(rule, "stores that remove targets from Route.Targets", nRemovals, 1)
}
