package main

// C05.G1 (keyword order of the rendered 'route add' command vs. the add grammar) and C05.Q1 / C14.Q1 (quoting of the
// tags/opts fields: producers vs. parser).
//
// Producers of command text are found by ROLE: a function with a string constant that begins with "route add "
// (Route.TargetConfig, consul's routecmd.build today), together with its region (the same-package helpers and
// closures it uses). The add grammar is found by role too: a pattern handed to regexp.Compile / MustCompile (directly
// or through a repository helper) that spells 'route add'.

import (
	"go/token"
	"go/types"
	"regexp"
	"strings"

	"golang.org/x/tools/go/ssa"
)

var c05Keywords = []string{"route add", "weight", "tags", "opts"}

// c05ConstOperands: the string constants an instruction uses.
func c05ConstOperands(i ssa.Instruction) []string {
	var out []string
	for _, op := range i.Operands(nil) {
		if op == nil || *op == nil {
			continue
		}
		if s, ok := constString(*op); ok {
			out = append(out, s)
		}
	}
	return out
}

// c05IsCmdStart: the text begins a 'route add' command.
func c05IsCmdStart(s string) bool {
	return strings.HasPrefix(strings.TrimLeft(s, " "), "route add ")
}

// c05StartsCmd: the instruction uses a constant that begins a 'route add' command: "route add ..." or, as a plain
// string (not the route.Cmd constant), the bare words "route add" (pieces joined with a separator later).
func c05StartsCmd(i ssa.Instruction) bool {
	for _, op := range i.Operands(nil) {
		if op == nil || *op == nil {
			continue
		}
		s, ok := constString(*op)
		if !ok {
			continue
		}
		if c05IsCmdStart(s) {
			return true
		}
		if _, plain := (*op).Type().(*types.Basic); plain && strings.TrimSpace(s) == "route add" {
			return true
		}
	}
	return false
}

// c05FragmentKeywords: the command keywords a piece of command text carries, in the order they appear. A string is a
// piece of command text only when it BEGINS with a keyword (" weight %.4f", "tags \"", "route add %s %s %s weight %s"),
// so that messages which merely mention one ("[WARN] invalid weight %s") do not count.
func c05FragmentKeywords(s string) []int {
	t := strings.TrimLeft(s, " ")
	starts := false
	for _, kw := range c05Keywords {
		if t == kw || strings.HasPrefix(t, kw+" ") || strings.HasPrefix(t, kw+"\"") || strings.HasPrefix(t, kw+"=") {
			starts = true
		}
	}
	if !starts {
		return nil
	}
	type hit struct{ pos, kw int }
	var hits []hit
	for k, kw := range c05Keywords {
		from := 0
		for {
			p := strings.Index(s[from:], kw)
			if p < 0 {
				break
			}
			p += from
			end := p + len(kw)
			left := p == 0 || s[p-1] == ' '
			right := end == len(s) || s[end] == ' ' || s[end] == '"' || s[end] == '='
			if left && right {
				hits = append(hits, hit{p, k})
			}
			from = end
		}
	}
	// order by position
	for a := 1; a < len(hits); a++ {
		for b := a; b > 0 && hits[b].pos < hits[b-1].pos; b-- {
			hits[b], hits[b-1] = hits[b-1], hits[b]
		}
	}
	var out []int
	for _, h := range hits {
		out = append(out, h.kw)
	}
	return out
}

// c05TopFn: the declared function a closure belongs to.
func c05TopFn(f *ssa.Function) *ssa.Function {
	for f.Parent() != nil {
		f = f.Parent()
	}
	return f
}

// c05Producers: the declared functions of package pkg ("" = whole repository) that start a 'route add' command.
func c05Producers(c *Ctx, pkg string) []*ssa.Function {
	seen := map[*ssa.Function]bool{}
	var out []*ssa.Function
	for _, f := range c.fnsWhere(pkg, func(*ssa.Function) bool { return true }) {
		hit := false
		eachInstr(f, func(i ssa.Instruction) {
			if c05StartsCmd(i) {
				hit = true
			}
		})
		if top := c05TopFn(f); hit && !seen[top] {
			seen[top] = true
			out = append(out, top)
		}
	}
	return out
}

var c05FlexSpace = regexp.MustCompile(`\\s[+*]`)

// c05AddGrammars: the regular expressions of package route that accept a 'route add' line with its optional clauses.
func c05AddGrammars(c *Ctx) []string {
	sp := c.spkg("route")
	if sp == nil {
		return nil
	}
	fns := c.fnsWhere("route", func(*ssa.Function) bool { return true })
	if init := sp.Func("init"); init != nil {
		fns = append(fns, init)
	}
	compiles := func(i ssa.Instruction) bool {
		cc := callCommon(i)
		if cc == nil {
			return false
		}
		n := calleeName(cc)
		return n == "regexp.MustCompile" || n == "regexp.Compile" || n == "regexp.MustCompilePOSIX" || n == "regexp.CompilePOSIX"
	}
	lifted := liftMay(compiles)
	var out []string
	seen := map[string]bool{}
	for _, f := range fns {
		eachInstr(f, func(i ssa.Instruction) {
			for _, s := range c05ConstOperands(i) {
				// handed to a compile call (or to a helper that compiles), or - when it reaches one through further
				// string operations - at least written in regular expression syntax
				if !lifted(i) && !strings.Contains(s, `\S`) && !strings.Contains(s, "[^") {
					continue
				}
				norm := c05FlexSpace.ReplaceAllString(s, " ")
				if strings.Contains(norm, "route add ") && strings.Contains(norm, "(") && !seen[s] {
					// the line classifier `^route\s+add` has no operands; the grammar has capture groups
					if strings.Contains(norm, "tags") || strings.Contains(norm, "opts") || strings.Contains(norm, "weight") {
						seen[s] = true
						out = append(out, norm)
					}
				}
			}
		})
	}
	return out
}

// c05ForwardReach: b can execute after a within one pass over the function body (no loop back edge is taken).
func c05ForwardReach(a, b ssa.Instruction) bool {
	if a.Block() == b.Block() {
		return instrIndex(a) < instrIndex(b)
	}
	seen := map[*ssa.BasicBlock]bool{a.Block(): true}
	stack := []*ssa.BasicBlock{a.Block()}
	for len(stack) > 0 {
		x := stack[len(stack)-1]
		stack = stack[:len(stack)-1]
		for _, s := range x.Succs {
			if s.Dominates(x) || seen[s] { // back edge
				continue
			}
			if s == b.Block() {
				return true
			}
			seen[s] = true
			stack = append(stack, s)
		}
	}
	return false
}

// ---- where the pieces of text end up ------------------------------------------------------------------------------

// c05Abs abstracts the keywords of one possible rendering: none, or the first and last keyword and whether all of
// them are in grammar order.
type c05Abs struct {
	empty       bool
	first, last int
	ordered     bool
}

type c05Seq map[c05Abs]bool

var c05EmptySeq = c05Seq{c05Abs{empty: true}: true}

func c05Concat(a, b c05Seq) c05Seq {
	out := c05Seq{}
	for x := range a {
		for y := range b {
			switch {
			case x.empty:
				out[y] = true
			case y.empty:
				out[x] = true
			default:
				out[c05Abs{first: x.first, last: y.last, ordered: x.ordered && y.ordered && x.last < y.first}] = true
			}
		}
	}
	return out
}

func c05Union(a, b c05Seq) c05Seq {
	out := c05Seq{}
	for x := range a {
		out[x] = true
	}
	for y := range b {
		out[y] = true
	}
	return out
}

// c05TextEval follows a string VALUE through concatenation, Sprintf, strings.Join, phis and helper results and
// reports which keyword sequences it can contain - the order of the text, which need not be the order in which the
// pieces are computed (a clause prepared in a local variable first and appended last).
type c05TextEval struct {
	visited    map[ssa.Instruction]bool // instructions whose keyword constants were placed
	seen       [4]bool                  // keywords placed
	memo       map[ssa.Value]c05Seq
	inprog     map[ssa.Value]bool
	fnprog     map[*ssa.Function]bool
	incomplete bool // part of the text is assembled in a way the evaluator does not follow (cells, builders)
}

func (e *c05TextEval) constSeq(s string, user ssa.Instruction) c05Seq {
	kws := c05FragmentKeywords(s)
	if len(kws) == 0 {
		return c05EmptySeq
	}
	if user != nil {
		e.visited[user] = true
	}
	ordered := true
	for k := range kws {
		e.seen[kws[k]] = true
		if k > 0 && kws[k] <= kws[k-1] {
			ordered = false
		}
	}
	return c05Seq{c05Abs{first: kws[0], last: kws[len(kws)-1], ordered: ordered}: true}
}

// c05ArrayElems: the values stored at constant indices of a local array, in index order.
func c05ArrayElems(arr *ssa.Alloc) ([]ssa.Value, []ssa.Instruction) {
	type el struct {
		idx int64
		v   ssa.Value
		st  ssa.Instruction
	}
	var els []el
	for _, r := range *arr.Referrers() {
		ia, ok := r.(*ssa.IndexAddr)
		if !ok {
			continue
		}
		idx, ok := constInt(ia.Index)
		if !ok {
			continue
		}
		for _, r2 := range *ia.Referrers() {
			if st, ok := r2.(*ssa.Store); ok && st.Addr == ssa.Value(ia) {
				els = append(els, el{idx, st.Val, st})
			}
		}
	}
	for a := 1; a < len(els); a++ {
		for b := a; b > 0 && els[b].idx < els[b-1].idx; b-- {
			els[b], els[b-1] = els[b-1], els[b]
		}
	}
	var vs []ssa.Value
	var sts []ssa.Instruction
	for _, x := range els {
		vs = append(vs, x.v)
		sts = append(sts, x.st)
	}
	return vs, sts
}

func (e *c05TextEval) variadic(v ssa.Value) c05Seq {
	out := c05EmptySeq
	sl, ok := v.(*ssa.Slice)
	if !ok {
		return e.seqSlice(v, 0)
	}
	arr, ok := sl.X.(*ssa.Alloc)
	if !ok {
		return e.seqSlice(v, 0)
	}
	vals, sts := c05ArrayElems(arr)
	for k, x := range vals {
		out = c05Concat(out, e.seq(x, sts[k], 0))
	}
	return out
}

var c05Verb = regexp.MustCompile(`%[-+# 0]*[0-9*]*(\.[0-9*]+)?[a-zA-Z%]`)

func (e *c05TextEval) seq(v ssa.Value, user ssa.Instruction, depth int) c05Seq {
	if v == nil || depth > 24 {
		return c05EmptySeq
	}
	if k, ok := v.(*ssa.Const); ok {
		if s, ok := constString(k); ok {
			return e.constSeq(s, user)
		}
		return c05EmptySeq
	}
	if m, ok := e.memo[v]; ok {
		return m
	}
	if e.inprog[v] {
		return c05EmptySeq // text assembled in a loop: the pieces added there carry no keywords or stay unplaced
	}
	e.inprog[v] = true
	out := e.seq1(v, depth)
	delete(e.inprog, v)
	e.memo[v] = out
	return out
}

func (e *c05TextEval) seq1(v ssa.Value, depth int) c05Seq {
	switch x := v.(type) {
	case *ssa.BinOp:
		if x.Op == token.ADD {
			return c05Concat(e.seq(x.X, x, depth+1), e.seq(x.Y, x, depth+1))
		}
	case *ssa.Phi:
		out := c05Seq{}
		for _, ed := range x.Edges {
			out = c05Union(out, e.seq(ed, x, depth+1))
		}
		return out
	case *ssa.MakeInterface:
		return e.seq(x.X, x, depth+1)
	case *ssa.ChangeType:
		return e.seq(x.X, x, depth+1)
	case *ssa.Convert:
		return e.seq(x.X, x, depth+1)
	case *ssa.UnOp:
		if x.Op == token.MUL {
			if _, isStr := x.Type().Underlying().(*types.Basic); isStr {
				switch x.X.(type) {
				case *ssa.Alloc, *ssa.FreeVar:
					e.incomplete = true // a string variable shared with a closure: stores are not ordered here
				}
			}
		}
	case *ssa.Extract:
		if call, ok := x.Tuple.(*ssa.Call); ok {
			return e.results(call, x.Index, depth)
		}
	case *ssa.Call:
		n := c05Name(&x.Call)
		args := x.Call.Args
		switch {
		case (n == "fmt.Sprintf" || n == "fmt.Appendf") && len(args) >= 1:
			fi := 0
			if n == "fmt.Appendf" {
				fi = 1
			}
			format, ok := constString(args[fi])
			if !ok || len(args) <= fi+1 {
				if ok {
					return e.constSeq(format, x)
				}
				return c05EmptySeq
			}
			var vals []ssa.Value
			var sts []ssa.Instruction
			if sl, ok := args[fi+1].(*ssa.Slice); ok {
				if arr, ok := sl.X.(*ssa.Alloc); ok {
					vals, sts = c05ArrayElems(arr)
				}
			}
			out := c05EmptySeq
			pos, k := 0, 0
			for _, loc := range c05Verb.FindAllStringIndex(format, -1) {
				out = c05Concat(out, e.constSeq(format[pos:loc[0]], x))
				pos = loc[1]
				if format[loc[1]-1] == '%' {
					continue
				}
				if k < len(vals) {
					out = c05Concat(out, e.seq(vals[k], sts[k], depth+1))
				}
				k++
			}
			return c05Concat(out, e.constSeq(format[pos:], x))
		case (n == "fmt.Sprint" || n == "fmt.Sprintln" || n == "strings.Join") && len(args) >= 1:
			if n == "strings.Join" {
				return e.seqSlice(args[0], depth+1)
			}
			return e.variadic(args[0])
		case c05CasePreserving[n] && len(args) >= 1:
			return e.seq(args[0], x, depth+1)
		}
		if sc := x.Call.StaticCallee(); sc != nil && isRepoFn(sc) && len(sc.Blocks) > 0 {
			return e.results(x, 0, depth)
		}
		if strings.HasSuffix(n, ".String") && !x.Call.IsInvoke() && len(args) == 1 {
			if namedIs(args[0].Type(), "strings.Builder") || namedIs(args[0].Type(), "bytes.Buffer") {
				e.incomplete = true
			}
		}
	}
	return c05EmptySeq
}

// results: what a repository helper can return at result position idx.
func (e *c05TextEval) results(call *ssa.Call, idx int, depth int) c05Seq {
	sc := call.Call.StaticCallee()
	if sc == nil || !isRepoFn(sc) || len(sc.Blocks) == 0 || e.fnprog[sc] || depth > 20 {
		return c05EmptySeq
	}
	e.fnprog[sc] = true
	defer delete(e.fnprog, sc)
	out := c05Seq{}
	eachInstr(sc, func(i ssa.Instruction) {
		if r, ok := i.(*ssa.Return); ok && idx < len(r.Results) {
			out = c05Union(out, e.seq(r.Results[idx], r, depth+1))
		}
	})
	if len(out) == 0 {
		return c05EmptySeq
	}
	return out
}

func (e *c05TextEval) seqSlice(v ssa.Value, depth int) c05Seq {
	if v == nil || depth > 24 {
		return c05EmptySeq
	}
	if m, ok := e.memo[v]; ok {
		return m
	}
	if e.inprog[v] {
		return c05EmptySeq
	}
	e.inprog[v] = true
	defer delete(e.inprog, v)
	out := c05EmptySeq
	switch x := v.(type) {
	case *ssa.Phi:
		out = c05Seq{}
		for _, ed := range x.Edges {
			out = c05Union(out, e.seqSlice(ed, depth+1))
		}
	case *ssa.Slice:
		if arr, ok := x.X.(*ssa.Alloc); ok {
			vals, sts := c05ArrayElems(arr)
			for k, el := range vals {
				out = c05Concat(out, e.seq(el, sts[k], depth+1))
			}
		} else {
			out = e.seqSlice(x.X, depth+1)
		}
	case *ssa.Call:
		if c05Name(&x.Call) == "builtin.append" && len(x.Call.Args) == 2 {
			out = c05Concat(e.seqSlice(x.Call.Args[0], depth+1), e.variadic(x.Call.Args[1]))
		} else if sc := x.Call.StaticCallee(); sc != nil && isRepoFn(sc) && len(sc.Blocks) > 0 && !e.fnprog[sc] {
			e.fnprog[sc] = true
			out = c05Seq{}
			eachInstr(sc, func(i ssa.Instruction) {
				if r, ok := i.(*ssa.Return); ok && len(r.Results) > 0 {
					out = c05Union(out, e.seqSlice(r.Results[0], depth+1))
				}
			})
			delete(e.fnprog, sc)
			if len(out) == 0 {
				out = c05EmptySeq
			}
		}
	}
	e.memo[v] = out
	return out
}

// ---- G1 -------------------------------------------------------------------------------------

func runC05G1(c *Ctx) {
	const rule = "C05.G1"
	// grammar order from the add regexp(s)
	pats := c05AddGrammars(c)
	if len(pats) == 0 {
		c.undecided(rule, "route|add grammar", "no regular expression accepting 'route add ...' found in package route")
		return
	}
	for _, pat := range pats {
		last := -1
		okGrammar := true
		for _, kw := range c05Keywords {
			p := strings.Index(pat, kw)
			if p < 0 || p < last {
				okGrammar = false
			}
			last = p
		}
		if !okGrammar {
			c.undecided(rule, "route|add grammar keyword order", "the add grammar no longer has the form route add .. weight .. tags .. opts: "+pat)
			return
		}
	}
	// renderer: the function(s) of package route that start a 'route add' command, with their helpers
	roots := c05Producers(c, "route")
	if len(roots) == 0 {
		c.undecided(rule, "anchor|renderer of route commands", "no function of package route renders a 'route add' command")
		return
	}
	reg := c.region(roots...)
	inReg := map[*ssa.Function]bool{}
	for _, g := range reg {
		inReg[g] = true
	}
	direct := func(k int) func(ssa.Instruction) bool {
		return func(i ssa.Instruction) bool {
			for _, s := range c05ConstOperands(i) {
				for _, kw := range c05FragmentKeywords(s) {
					if kw == k {
						return true
					}
				}
			}
			return false
		}
	}
	ok, detail := true, ""
	emitted := make([]bool, len(c05Keywords))
	// (1) the order of the TEXT, when the rendered string can be followed as a value
	ev := &c05TextEval{visited: map[ssa.Instruction]bool{}, memo: map[ssa.Value]c05Seq{}, inprog: map[ssa.Value]bool{}, fnprog: map[*ssa.Function]bool{}}
	rendered := c05Seq{}
	for _, root := range roots {
		eachInstr(root, func(i ssa.Instruction) {
			if r, isR := i.(*ssa.Return); isR {
				for _, res := range r.Results {
					if isStringType(res.Type()) {
						rendered = c05Union(rendered, ev.seq(res, r, 0))
					}
				}
			}
		})
	}
	placedAll := !ev.incomplete
	eachInstrOf(reg, func(_ *ssa.Function, i ssa.Instruction) {
		for _, s := range c05ConstOperands(i) {
			if len(c05FragmentKeywords(s)) > 0 && !ev.visited[i] {
				placedAll = false
			}
		}
	})
	if placedAll {
		for a := range rendered {
			if !a.empty && !a.ordered {
				ok, detail = false, "a rendering can carry its keywords out of order (the text, not only the statements, was followed)"
			}
		}
		for k, kw := range c05Keywords {
			if !ev.seen[k] {
				ok, detail = false, "the renderer no longer emits '"+kw+"'"
			}
		}
		c.check(rule, fnKey(roots[0])+"|keywords in the order the add grammar accepts", roots[0].Pos(), ok,
			"the text rendering of a table must be accepted by the parser: the add grammar is 'route add <svc> <src> <dst>[ weight <w>][ tags \"..\"][ opts \"..\"]' in that order; "+detail)
		return
	}
	// (2) otherwise (text written piecewise into a builder ...): the order in which the pieces are emitted
	for _, g := range reg {
		// a single piece of text with several keywords: their order inside the text
		eachInstr(g, func(i ssa.Instruction) {
			for _, s := range c05ConstOperands(i) {
				kws := c05FragmentKeywords(s)
				for a := 1; a < len(kws); a++ {
					if kws[a] < kws[a-1] {
						ok, detail = false, "'"+c05Keywords[kws[a-1]]+"' is written before '"+c05Keywords[kws[a]]+"' in "+s
					}
				}
			}
		})
		ev := make([][]ssa.Instruction, len(c05Keywords))
		for k := range c05Keywords {
			d := direct(k)
			may := liftMay(d)
			eachInstr(g, func(i ssa.Instruction) {
				if _, isGo := i.(*ssa.Go); isGo {
					return
				}
				if d(i) {
					emitted[k] = true
				}
				if may(i) {
					ev[k] = append(ev[k], i)
				}
			})
		}
		for k := 0; k < len(c05Keywords); k++ {
			for j := k + 1; j < len(c05Keywords); j++ {
				for _, a := range ev[k] {
					for _, b := range ev[j] {
						if a != b && c05ForwardReach(b, a) {
							ok, detail = false, "'"+c05Keywords[j]+"' can be emitted before '"+c05Keywords[k]+"' in "+fnKey(g)
						}
					}
				}
			}
		}
	}
	for k, kw := range c05Keywords {
		if !emitted[k] {
			ok, detail = false, "the renderer no longer emits '"+kw+"'"
		}
	}
	c.check(rule, fnKey(roots[0])+"|keywords in the order the add grammar accepts", roots[0].Pos(), ok,
		"the text rendering of a table must be accepted by the parser: the add grammar is 'route add <svc> <src> <dst>[ weight <w>][ tags \"..\"][ opts \"..\"]' in that order; "+detail)
}

// ---- Q1 -------------------------------------------------------------------------------------

// c05OnlyLogged: the value is used for nothing but log output.
func c05OnlyLogged(v ssa.Value) bool {
	seen := map[ssa.Value]bool{}
	var walk func(v ssa.Value, d int) bool
	walk = func(v ssa.Value, d int) bool {
		if seen[v] {
			return true
		}
		seen[v] = true
		refs := v.Referrers()
		if refs == nil || d > 6 {
			return false
		}
		n := 0
		for _, r := range *refs {
			switch y := r.(type) {
			case *ssa.DebugRef:
			case *ssa.MakeInterface:
				n++
				if !walk(y, d+1) {
					return false
				}
			case *ssa.Store:
				// varargs array element
				ia, ok := y.Addr.(*ssa.IndexAddr)
				if !ok || y.Val != v {
					return false
				}
				arr, ok := ia.X.(*ssa.Alloc)
				if !ok {
					return false
				}
				n++
				for _, r2 := range *arr.Referrers() {
					if sl, ok := r2.(*ssa.Slice); ok {
						if !walk(sl, d+1) {
							return false
						}
					}
				}
			case *ssa.Call:
				n++
				if !strings.HasPrefix(calleeName(&y.Call), "log.") {
					return false
				}
			default:
				return false
			}
		}
		return n > 0
	}
	return walk(v, 0)
}

// runQuoting: producers of quoted fields vs. the consumer in the route parser.
func runQuoting(c *Ctx, rule string) {
	// consumer: everything the exported parser entry points run
	consumerUnquotes := false
	var entry []*ssa.Function
	for _, n := range []string{"Parse", "ParseAliases", "parseTags", "parseOpts", "parseRouteAdd", "parseRouteDel", "parseRouteWeight"} {
		if f := c.fn("route", n); f != nil {
			entry = append(entry, f)
		}
	}
	eachInstrOf(c.region(entry...), func(_ *ssa.Function, i ssa.Instruction) {
		if cc := callCommon(i); cc != nil && strings.HasPrefix(calleeName(cc), "strconv.Unquote") {
			consumerUnquotes = true
		}
	})
	if len(entry) == 0 {
		c.undecided(rule, "anchor|route command parser", "route.Parse not found")
	}
	producers := c05Producers(c, "")
	nRoute := 0
	for _, p := range producers {
		if rootPkg(p) == c.spkg("route") {
			nRoute++
		}
		quotes := false
		var pos token.Pos = p.Pos()
		eachInstrOf(c.region(p), func(_ *ssa.Function, i ssa.Instruction) {
			cc := callCommon(i)
			if cc == nil {
				return
			}
			name := calleeName(cc)
			if strings.HasPrefix(name, "strconv.Quote") || strings.HasPrefix(name, "strconv.AppendQuote") {
				if v, isVal := i.(ssa.Value); isVal && c05OnlyLogged(v) {
					return
				}
				quotes, pos = true, i.Pos()
			}
			if strings.HasPrefix(name, "fmt.Sprint") || strings.HasPrefix(name, "fmt.Fprint") || strings.HasPrefix(name, "fmt.Append") {
				for _, a := range cc.Args {
					if s, ok := constString(a); ok && strings.Contains(s, "%q") && (strings.Contains(s, "tags") || strings.Contains(s, "opts")) {
						quotes, pos = true, i.Pos()
					}
				}
			}
		})
		c.check(rule, fnKey(p)+"|quoted fields written the way the parser reads them", pos, quotes == consumerUnquotes,
			"the route parser takes the text between the double quotes verbatim (it never unquotes), so a producer that escapes with %q / strconv.Quote writes text that parses into different tags/options (backslashes, non-printable characters) or, for a value containing a quote, into an invalid line")
	}
	if nRoute == 0 {
		c.undecided(rule, "anchor|route command producer", "no function of package route renders 'route add' commands (Route.TargetConfig)")
	}
	c.atLeast(rule, "producers of route command text", len(producers), 2)
}
