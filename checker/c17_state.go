package main

// C17: the state of the response writer kept in a field of basic type instead of (or next to) the nil-ness of a
// pointer / interface field.
//
//	decision state   "undecided" is the nil-ness of the decided-writer field; a restructuring may keep it in a boolean
//	                 (`decided bool`, tested as `if !grw.decided`, `if grw.decided == false`) or in an enumeration
//	                 (`state int` with stateUndecided = 0, statePlain, stateGzip; `switch grw.state`). A field of a struct
//	                 of the region counts as a decision state when the package only ever stores constants other than the
//	                 zero value into it (the zero value may be spelled out where a writer is built) and - when there is a
//	                 decided-writer field - every such store is tied to assigning it: on every path through the function
//	                 that sets the state the writer field is assigned as well (without such a field: taking the gzip writer
//	                 is tied to setting the state). Then state != zero implies "decided" once the method has returned, and
//	                 the rules accept such a fact wherever they accept a nil fact.
//	gzip state       `if grw.gzipWriter != nil` may be spelled with a boolean (`compressing`) or with one value of the
//	                 enumeration (`grw.state == stateGzip`). A (field, constant) pair is equivalent to "a pooled writer is
//	                 held" when every store of that constant into the field is tied to taking a writer (a non-nil store
//	                 into a *gzip.Writer field happens on every path through the function as well), and every such store
//	                 into a *gzip.Writer field is tied to storing that constant.

import (
	"go/constant"
	"go/token"
	"go/types"

	"golang.org/x/tools/go/ssa"
)

// c17freshBase: addr is a field of a struct that the function has just allocated (a literal under construction).
func c17freshBase(addr ssa.Value) bool {
	fa, ok := addr.(*ssa.FieldAddr)
	if !ok {
		return false
	}
	_, fresh := fa.X.(*ssa.Alloc)
	return fresh
}

// c17boolFact: a fact `x == false`, `x != true` ... about a boolean is a fact about x.
func c17boolFact(f Fact) Fact {
	for d := 0; d < 4; d++ {
		b, ok := f.Cond.(*ssa.BinOp)
		if !ok || (b.Op != token.EQL && b.Op != token.NEQ) {
			break
		}
		x, kv := b.X, b.Y
		bv, isK := constBool(kv)
		if !isK {
			x, kv = b.Y, b.X
			if bv, isK = constBool(kv); !isK {
				break
			}
		}
		// (x == bv) == truth  <=>  x == (truth == bv); the reverse for !=
		t := f.Truth == bv
		if b.Op == token.NEQ {
			t = !t
		}
		f = Fact{x, t}
	}
	return f
}

func c17constEq(a, b constant.Value) bool {
	return a != nil && b != nil && a.Kind() == b.Kind() && constant.Compare(a, token.EQL, b)
}

// stateFact: the fact compares a field of a struct of the region with a constant: field == C (eq) or field != C.
// A boolean field tested as such is field == true / field != true.
func (k *c17kit) stateFact(f Fact) (fk c17fkey, C constant.Value, eq bool, ok bool) {
	f = c17boolFact(f)
	if key := k.fkey(f.Cond); key.n != nil {
		if b, isB := key.typ().Underlying().(*types.Basic); isB && b.Kind() == types.Bool {
			return key, constant.MakeBool(true), f.Truth, true
		}
		return c17fkey{}, nil, false, false
	}
	b, isB := f.Cond.(*ssa.BinOp)
	if !isB || (b.Op != token.EQL && b.Op != token.NEQ) {
		return c17fkey{}, nil, false, false
	}
	for _, p := range [][2]ssa.Value{{b.X, b.Y}, {b.Y, b.X}} {
		kc, isK := p[1].(*ssa.Const)
		if !isK || kc.Value == nil {
			continue
		}
		v := p[0]
		if ct, isCT := v.(*ssa.ChangeType); isCT {
			v = ct.X
		}
		if key := k.fkey(v); key.n != nil && zeroConst(key.typ()) != nil {
			return key, kc.Value, (b.Op == token.EQL) == f.Truth, true
		}
	}
	return c17fkey{}, nil, false, false
}

// constStores: every store into field fk is a constant of a basic type; returns the non-zero constants with their
// stores. The zero value spelled out for a struct under construction (`&T{decided: false}`) is skipped; any other
// store of the zero value, or of something that is not a constant, makes the field unusable as a state (ok == false).
func (k *c17kit) constStores(fk c17fkey) (vals []constant.Value, by map[int][]*ssa.Store, ok bool) {
	zero := zeroConst(fk.typ())
	if zero == nil {
		return nil, nil, false
	}
	by = map[int][]*ssa.Store{}
	for _, st := range k.stores[fk] {
		kc, isK := st.Val.(*ssa.Const)
		if !isK || kc.Value == nil || kc.Value.Kind() != zero.Kind() {
			return nil, nil, false
		}
		if c17constEq(kc.Value, zero) {
			if c17freshBase(st.Addr) {
				continue
			}
			return nil, nil, false
		}
		idx := -1
		for i, v := range vals {
			if c17constEq(v, kc.Value) {
				idx = i
			}
		}
		if idx < 0 {
			idx = len(vals)
			vals = append(vals, kc.Value)
		}
		by[idx] = append(by[idx], st)
	}
	return vals, by, len(vals) > 0
}

// decisionFlags: the fields that are a decision state (see the head of this file).
func (k *c17kit) decisionFlags() map[c17fkey]bool {
	if k.flags != nil {
		return k.flags
	}
	k.flags = map[c17fkey]bool{} // (empty while it is computed: the checks below do not consult flags)
	out := map[c17fkey]bool{}
	for fk := range k.stores {
		_, by, ok := k.constStores(fk)
		if !ok {
			continue
		}
		valid := true
		if !k.sel {
			for _, sts := range by {
				for _, st := range sts {
					if !k.tiedTo(st, k.decides) {
						valid = false
					}
				}
			}
		} else {
			// in the selected representation the state IS the decision: there is no writer field to tie it to. What makes
			// a field the decision state (and not some other latch, `hijacked bool`) is that taking the gzip writer is
			// tied to setting it
			n := 0
			eachInstrOf(k.fns, func(_ *ssa.Function, i ssa.Instruction) {
				if !k.isInstall(i) {
					return
				}
				n++
				if !k.tiedTo(i, func(j ssa.Instruction) bool {
					st, isSt := j.(*ssa.Store)
					return isSt && k.fkey(st.Addr) == fk
				}) {
					valid = false
				}
			})
			if n == 0 {
				valid = false
			}
		}
		if valid {
			out[fk] = true
		}
	}
	k.flags = out
	return out
}

// flagFact: the fact is about a decision state; returns whether it says "decided".
func (k *c17kit) flagFact(f Fact) (decided bool, ok bool) {
	fk, C, eq, isS := k.stateFact(f)
	if !isS || !k.decisionFlags()[fk] {
		return false, false
	}
	zero := zeroConst(fk.typ())
	switch {
	case c17constEq(C, zero):
		return !eq, true
	case C.Kind() == constant.Bool:
		return eq, true // a boolean has two values
	case eq:
		return true, true // equal to a constant other than the zero value
	}
	return false, false // different from one of several non-zero constants: says nothing
}

// isFlagSet: i stores a (non-zero) constant into a decision state.
func (k *c17kit) isFlagSet(i ssa.Instruction) bool {
	st, ok := i.(*ssa.Store)
	if !ok {
		return false
	}
	fk := k.fkey(st.Addr)
	if fk.n == nil || !k.decisionFlags()[fk] {
		return false
	}
	kc, isK := st.Val.(*ssa.Const)
	return isK && kc.Value != nil && !c17constEq(kc.Value, zeroConst(fk.typ()))
}

func (k *c17kit) isGzStore(i ssa.Instruction) bool {
	st, ok := i.(*ssa.Store)
	return ok && k.isGz(st.Addr) && !isNilConst(st.Val)
}

// gzStates: for the fields that carry a gzip state, the constant that means "a pooled writer is held".
func (k *c17kit) gzStates() map[c17fkey]constant.Value {
	if k.gzflags != nil {
		return k.gzflags
	}
	out := map[c17fkey]constant.Value{}
	k.gzflags = out
	var gzStores []ssa.Instruction
	eachInstrOf(k.fns, func(_ *ssa.Function, i ssa.Instruction) {
		if k.isGzStore(i) && !c17freshBase(i.(*ssa.Store).Addr) {
			gzStores = append(gzStores, i)
		}
	})
	if len(gzStores) == 0 {
		return out
	}
	for fk := range k.stores {
		vals, by, ok := k.constStores(fk)
		if !ok {
			continue
		}
		for idx, C := range vals {
			valid := true
			for _, st := range by[idx] {
				if !k.tiedTo(st, k.isGzStore) {
					valid = false
				}
			}
			sets := func(i ssa.Instruction) bool {
				st, isSt := i.(*ssa.Store)
				if !isSt || k.fkey(st.Addr) != fk {
					return false
				}
				kc, isK := st.Val.(*ssa.Const)
				return isK && c17constEq(kc.Value, C)
			}
			for _, g := range gzStores {
				if !k.tiedTo(g, sets) {
					valid = false
				}
			}
			if valid {
				out[fk] = C
				break
			}
		}
	}
	return out
}

// gzFlagFact: the fact is about a gzip state; returns whether it says "a pooled writer is held".
func (k *c17kit) gzFlagFact(f Fact) (set bool, ok bool) {
	fk, C, eq, isS := k.stateFact(f)
	if !isS {
		return false, false
	}
	Cg, has := k.gzStates()[fk]
	if !has {
		return false, false
	}
	switch {
	case c17constEq(C, Cg):
		return eq, true
	case C.Kind() == constant.Bool:
		return !eq, true
	case eq:
		return false, true // equal to another constant
	}
	return false, false
}

// gzFact: what a branch outcome says about the gzip-writer field: a nil test of the field (or of a local copy), or a
// test of an equivalent state.
func (k *c17kit) gzFact(f Fact) (set bool, ok bool) {
	if nn, isNil := nilFact(f, k.isGzLoad); isNil {
		return nn, true
	}
	return k.gzFlagFact(f)
}
