package main

// Overlay mutants of C15 added while hardening the rules against behaviour-preserving refactoring (generated from a
// scratch script; edit here). Expect "" = benign rewrite that must stay silent.

var c15MoreMutants = []mutant{
	{
		Name: `benign: fallback closure becomes a method`,
		File: `config/flagset.go`,
		Old: `	// lookup the rest via environ and properties
	f.VisitAll(func(fl *flag.Flag) {
		// skip if already set
		if f.set[fl.Name] {
			return
		}

		// check environment variables
		for _, pfx := range prefixes {
			name := strings.ToUpper(pfx + strings.Replace(fl.Name, ".", "_", -1))
			if val, ok := env[name]; ok {
				f.set[fl.Name] = true
				f.Set(fl.Name, val)
				return
			}
		}

		// check properties
		if p == nil {
			return
		}
		if val, ok := p.Get(fl.Name); ok {
			f.set[fl.Name] = true
			f.Set(fl.Name, val)
			return
		}
	})
	return nil
}
`,
		New: `	// lookup the rest via environ and properties
	f.VisitAll(func(fl *flag.Flag) { f.fallback(fl, env, prefixes, p) })
	return nil
}

func (f *FlagSet) fallback(fl *flag.Flag, env map[string]string, prefixes []string, p *properties.Properties) {
	if f.set[fl.Name] {
		return
	}
	for _, pfx := range prefixes {
		name := strings.ToUpper(pfx + strings.Replace(fl.Name, ".", "_", -1))
		if val, ok := env[name]; ok {
			f.set[fl.Name] = true
			f.Set(fl.Name, val)
			return
		}
	}
	if p == nil {
		return
	}
	if val, ok := p.Get(fl.Name); ok {
		f.set[fl.Name] = true
		f.Set(fl.Name, val)
	}
}
`,
		Expect: ``,
	},
	{
		Name: `benign: mark-and-assign helper used by both sources`,
		File: `config/flagset.go`,
		Old: `	// lookup the rest via environ and properties
	f.VisitAll(func(fl *flag.Flag) {
		// skip if already set
		if f.set[fl.Name] {
			return
		}

		// check environment variables
		for _, pfx := range prefixes {
			name := strings.ToUpper(pfx + strings.Replace(fl.Name, ".", "_", -1))
			if val, ok := env[name]; ok {
				f.set[fl.Name] = true
				f.Set(fl.Name, val)
				return
			}
		}

		// check properties
		if p == nil {
			return
		}
		if val, ok := p.Get(fl.Name); ok {
			f.set[fl.Name] = true
			f.Set(fl.Name, val)
			return
		}
	})
	return nil
}
`,
		New: `	// lookup the rest via environ and properties
	f.VisitAll(func(fl *flag.Flag) {
		if f.IsSet(fl.Name) {
			return
		}
		for _, pfx := range prefixes {
			if val, ok := env[envName(pfx, fl.Name)]; ok {
				f.assign(fl.Name, val)
				return
			}
		}
		if p != nil {
			if val, ok := p.Get(fl.Name); ok {
				f.assign(fl.Name, val)
			}
		}
	})
	return nil
}

// assign records the flag as set and parses the value into it.
func (f *FlagSet) assign(name, val string) {
	f.set[name] = true
	f.Set(name, val)
}

func envName(pfx, name string) string {
	return strings.ToUpper(pfx + strings.ReplaceAll(name, ".", "_"))
}
`,
		Expect: ``,
	},
	{
		Name: `benign: one helper per source, the first reports whether it applied`,
		File: `config/flagset.go`,
		Old: `	// lookup the rest via environ and properties
	f.VisitAll(func(fl *flag.Flag) {
		// skip if already set
		if f.set[fl.Name] {
			return
		}

		// check environment variables
		for _, pfx := range prefixes {
			name := strings.ToUpper(pfx + strings.Replace(fl.Name, ".", "_", -1))
			if val, ok := env[name]; ok {
				f.set[fl.Name] = true
				f.Set(fl.Name, val)
				return
			}
		}

		// check properties
		if p == nil {
			return
		}
		if val, ok := p.Get(fl.Name); ok {
			f.set[fl.Name] = true
			f.Set(fl.Name, val)
			return
		}
	})
	return nil
}
`,
		New: `	// lookup the rest via environ and properties
	f.VisitAll(func(fl *flag.Flag) {
		if f.set[fl.Name] {
			return
		}
		if f.fromEnv(fl, env, prefixes) {
			return
		}
		f.fromProps(fl, p)
	})
	return nil
}

func (f *FlagSet) fromEnv(fl *flag.Flag, env map[string]string, prefixes []string) bool {
	for _, pfx := range prefixes {
		name := strings.ToUpper(pfx + strings.Replace(fl.Name, ".", "_", -1))
		if val, ok := env[name]; ok {
			f.set[fl.Name] = true
			f.Set(fl.Name, val)
			return true
		}
	}
	return false
}

func (f *FlagSet) fromProps(fl *flag.Flag, p *properties.Properties) {
	if p == nil {
		return
	}
	if val, ok := p.Get(fl.Name); ok {
		f.set[fl.Name] = true
		f.Set(fl.Name, val)
	}
}
`,
		Expect: ``,
	},
	{
		Name: `benign: guard inverted, callback kept in a variable, Visit given a method value`,
		File: `config/flagset.go`,
		Old: `	// determine all values that were set via cmdline
	f.Visit(func(fl *flag.Flag) {
		f.set[fl.Name] = true
	})

	// lookup the rest via environ and properties
	f.VisitAll(func(fl *flag.Flag) {
		// skip if already set
		if f.set[fl.Name] {
			return
		}

		// check environment variables
		for _, pfx := range prefixes {
			name := strings.ToUpper(pfx + strings.Replace(fl.Name, ".", "_", -1))
			if val, ok := env[name]; ok {
				f.set[fl.Name] = true
				f.Set(fl.Name, val)
				return
			}
		}

		// check properties
		if p == nil {
			return
		}
		if val, ok := p.Get(fl.Name); ok {
			f.set[fl.Name] = true
			f.Set(fl.Name, val)
			return
		}
	})
	return nil
}
`,
		New: `	// determine all values that were set via cmdline
	f.Visit(f.markSet)

	// lookup the rest via environ and properties
	fallback := func(fl *flag.Flag) {
		if !f.set[fl.Name] {
			for i := 0; i < len(prefixes); i++ {
				name := strings.ToUpper(prefixes[i] + strings.Replace(fl.Name, ".", "_", -1))
				if val, ok := env[name]; ok {
					f.set[fl.Name] = true
					f.Set(fl.Name, val)
					return
				}
			}
			if p != nil {
				if val, ok := p.Get(fl.Name); ok {
					f.set[fl.Name] = true
					f.Set(fl.Name, val)
				}
			}
		}
	}
	f.VisitAll(fallback)
	return nil
}

func (f *FlagSet) markSet(fl *flag.Flag) { f.set[fl.Name] = true }
`,
		Expect: ``,
	},
	{
		Name: `benign: both sources looked up first, environment preferred`,
		File: `config/flagset.go`,
		Old: `	// lookup the rest via environ and properties
	f.VisitAll(func(fl *flag.Flag) {
		// skip if already set
		if f.set[fl.Name] {
			return
		}

		// check environment variables
		for _, pfx := range prefixes {
			name := strings.ToUpper(pfx + strings.Replace(fl.Name, ".", "_", -1))
			if val, ok := env[name]; ok {
				f.set[fl.Name] = true
				f.Set(fl.Name, val)
				return
			}
		}

		// check properties
		if p == nil {
			return
		}
		if val, ok := p.Get(fl.Name); ok {
			f.set[fl.Name] = true
			f.Set(fl.Name, val)
			return
		}
	})
	return nil
}
`,
		New: `	// lookup the rest via environ and properties
	f.VisitAll(func(fl *flag.Flag) {
		if f.set[fl.Name] {
			return
		}
		envVal, envOK := "", false
		for _, pfx := range prefixes {
			if envVal, envOK = env[strings.ToUpper(pfx+strings.Replace(fl.Name, ".", "_", -1))]; envOK {
				break
			}
		}
		propVal, propOK := "", false
		if p != nil {
			propVal, propOK = p.Get(fl.Name)
		}
		switch {
		case envOK:
			f.set[fl.Name] = true
			f.Set(fl.Name, envVal)
		case propOK:
			f.set[fl.Name] = true
			f.Set(fl.Name, propVal)
		}
	})
	return nil
}
`,
		Expect: ``,
	},
	{
		Name: `benign: environment split with IndexByte, keys and names lower-cased consistently`,
		File: `config/flagset.go`,
		Old: `	// parse environment in case-insensitive way
	env := map[string]string{}
	for _, e := range environ {
		p := strings.SplitN(e, "=", 2)
		if len(p) != 2 {
			// ignore entries without a value
			continue
		}
		env[strings.ToUpper(p[0])] = p[1]
	}
`,
		New: `	// parse environment in case-insensitive way
	env := make(map[string]string, len(environ))
	for _, e := range environ {
		i := strings.IndexByte(e, '=')
		if i < 0 {
			// ignore entries without a value
			continue
		}
		env[strings.ToLower(e[:i])] = e[i+1:]
	}
`,
		Expect: ``,
		More: []repl{
			{Old: `			name := strings.ToUpper(pfx + strings.Replace(fl.Name, ".", "_", -1))
`, New: `			name := strings.ToLower(pfx + strings.Replace(fl.Name, ".", "_", -1))
`},
		},
	},
	{
		Name: `benign: set of flags becomes map[string]struct{}`,
		File: `config/flagset.go`,
		Old: `	set map[string]bool
}
`,
		New: `	set map[string]struct{}
}
`,
		Expect: ``,
		More: []repl{
			{Old: `	fs := &FlagSet{set: make(map[string]bool)}
`, New: `	fs := &FlagSet{set: make(map[string]struct{})}
`},
			{Old: `	return f.set[name]
`, New: `	_, ok := f.set[name]
	return ok
`},
			{Old: `		f.set[fl.Name] = true
	})
`, New: `		f.set[fl.Name] = struct{}{}
	})
`},
			{Old: `		if f.set[fl.Name] {
			return
		}
`, New: `		if _, done := f.set[fl.Name]; done {
			return
		}
`},
			{Old: `				f.set[fl.Name] = true
				f.Set(fl.Name, val)
`, New: `				f.set[fl.Name] = struct{}{}
				f.Set(fl.Name, val)
`},
			{Old: `			f.set[fl.Name] = true
			f.Set(fl.Name, val)
`, New: `			f.set[fl.Name] = struct{}{}
			f.Set(fl.Name, val)
`},
		},
	},
	{
		Name: `benign: environment map built before the command line is parsed`,
		File: `config/flagset.go`,
		Old: `	if err := f.Parse(args); err != nil {
		return err
	}

	if len(prefixes) == 0 {
		prefixes = []string{""}
	}

	// parse environment in case-insensitive way
	env := map[string]string{}
	for _, e := range environ {
		p := strings.SplitN(e, "=", 2)
		if len(p) != 2 {
			// ignore entries without a value
			continue
		}
		env[strings.ToUpper(p[0])] = p[1]
	}
`,
		New: `	// parse environment in case-insensitive way
	env := map[string]string{}
	for _, e := range environ {
		p := strings.SplitN(e, "=", 2)
		if len(p) != 2 {
			// ignore entries without a value
			continue
		}
		env[strings.ToUpper(p[0])] = p[1]
	}

	if len(prefixes) == 0 {
		prefixes = []string{""}
	}

	if err := f.Parse(args); err != nil {
		return err
	}
`,
		Expect: ``,
	},
	{
		Name: `properties preferred when both sources have a value`,
		File: `config/flagset.go`,
		Old: `	// lookup the rest via environ and properties
	f.VisitAll(func(fl *flag.Flag) {
		// skip if already set
		if f.set[fl.Name] {
			return
		}

		// check environment variables
		for _, pfx := range prefixes {
			name := strings.ToUpper(pfx + strings.Replace(fl.Name, ".", "_", -1))
			if val, ok := env[name]; ok {
				f.set[fl.Name] = true
				f.Set(fl.Name, val)
				return
			}
		}

		// check properties
		if p == nil {
			return
		}
		if val, ok := p.Get(fl.Name); ok {
			f.set[fl.Name] = true
			f.Set(fl.Name, val)
			return
		}
	})
	return nil
}
`,
		New: `	// lookup the rest via environ and properties
	f.VisitAll(func(fl *flag.Flag) {
		if f.set[fl.Name] {
			return
		}
		envVal, envOK := "", false
		for _, pfx := range prefixes {
			if envVal, envOK = env[strings.ToUpper(pfx+strings.Replace(fl.Name, ".", "_", -1))]; envOK {
				break
			}
		}
		propVal, propOK := "", false
		if p != nil {
			propVal, propOK = p.Get(fl.Name)
		}
		switch {
		case propOK:
			f.set[fl.Name] = true
			f.Set(fl.Name, propVal)
		case envOK:
			f.set[fl.Name] = true
			f.Set(fl.Name, envVal)
		}
	})
	return nil
}
`,
		Expect: `C15.R2`,
	},
	{
		Name: `empty environment value treated as absent`,
		File: `config/flagset.go`,
		Old: `			if val, ok := env[name]; ok {
`,
		New: `			if val, ok := env[name]; ok && val != "" {
`,
		Expect: `C15.R2`,
	},
	{
		Name: `mark-and-assign helper forgets the mark`,
		File: `config/flagset.go`,
		Old: `	// lookup the rest via environ and properties
	f.VisitAll(func(fl *flag.Flag) {
		// skip if already set
		if f.set[fl.Name] {
			return
		}

		// check environment variables
		for _, pfx := range prefixes {
			name := strings.ToUpper(pfx + strings.Replace(fl.Name, ".", "_", -1))
			if val, ok := env[name]; ok {
				f.set[fl.Name] = true
				f.Set(fl.Name, val)
				return
			}
		}

		// check properties
		if p == nil {
			return
		}
		if val, ok := p.Get(fl.Name); ok {
			f.set[fl.Name] = true
			f.Set(fl.Name, val)
			return
		}
	})
	return nil
}
`,
		New: `	// lookup the rest via environ and properties
	f.VisitAll(func(fl *flag.Flag) {
		if f.IsSet(fl.Name) {
			return
		}
		for _, pfx := range prefixes {
			if val, ok := env[envName(pfx, fl.Name)]; ok {
				f.assign(fl.Name, val)
				return
			}
		}
		if p != nil {
			if val, ok := p.Get(fl.Name); ok {
				f.assign(fl.Name, val)
			}
		}
	})
	return nil
}

// assign parses the value into the flag.
func (f *FlagSet) assign(name, val string) {
	f.Set(name, val)
}

func envName(pfx, name string) string {
	return strings.ToUpper(pfx + strings.ReplaceAll(name, ".", "_"))
}
`,
		Expect: `C15.R2`,
	},
	{
		Name: `per-source helpers, result of the environment helper ignored`,
		File: `config/flagset.go`,
		Old: `	// lookup the rest via environ and properties
	f.VisitAll(func(fl *flag.Flag) {
		// skip if already set
		if f.set[fl.Name] {
			return
		}

		// check environment variables
		for _, pfx := range prefixes {
			name := strings.ToUpper(pfx + strings.Replace(fl.Name, ".", "_", -1))
			if val, ok := env[name]; ok {
				f.set[fl.Name] = true
				f.Set(fl.Name, val)
				return
			}
		}

		// check properties
		if p == nil {
			return
		}
		if val, ok := p.Get(fl.Name); ok {
			f.set[fl.Name] = true
			f.Set(fl.Name, val)
			return
		}
	})
	return nil
}
`,
		New: `	// lookup the rest via environ and properties
	f.VisitAll(func(fl *flag.Flag) {
		if f.set[fl.Name] {
			return
		}
		f.fromEnv(fl, env, prefixes)
		f.fromProps(fl, p)
	})
	return nil
}

func (f *FlagSet) fromEnv(fl *flag.Flag, env map[string]string, prefixes []string) bool {
	for _, pfx := range prefixes {
		name := strings.ToUpper(pfx + strings.Replace(fl.Name, ".", "_", -1))
		if val, ok := env[name]; ok {
			f.set[fl.Name] = true
			f.Set(fl.Name, val)
			return true
		}
	}
	return false
}

func (f *FlagSet) fromProps(fl *flag.Flag, p *properties.Properties) {
	if p == nil {
		return
	}
	if val, ok := p.Get(fl.Name); ok {
		f.set[fl.Name] = true
		f.Set(fl.Name, val)
	}
}
`,
		Expect: `C15.R2`,
	},
	{
		Name: `guard in a method with the wrong polarity`,
		File: `config/flagset.go`,
		Old: `	// lookup the rest via environ and properties
	f.VisitAll(func(fl *flag.Flag) {
		// skip if already set
		if f.set[fl.Name] {
			return
		}

		// check environment variables
		for _, pfx := range prefixes {
			name := strings.ToUpper(pfx + strings.Replace(fl.Name, ".", "_", -1))
			if val, ok := env[name]; ok {
				f.set[fl.Name] = true
				f.Set(fl.Name, val)
				return
			}
		}

		// check properties
		if p == nil {
			return
		}
		if val, ok := p.Get(fl.Name); ok {
			f.set[fl.Name] = true
			f.Set(fl.Name, val)
			return
		}
	})
	return nil
}
`,
		New: `	// lookup the rest via environ and properties
	f.VisitAll(func(fl *flag.Flag) { f.fallback(fl, env, prefixes, p) })
	return nil
}

func (f *FlagSet) fallback(fl *flag.Flag, env map[string]string, prefixes []string, p *properties.Properties) {
	if !f.set[fl.Name] {
		return
	}
	for _, pfx := range prefixes {
		name := strings.ToUpper(pfx + strings.Replace(fl.Name, ".", "_", -1))
		if val, ok := env[name]; ok {
			f.set[fl.Name] = true
			f.Set(fl.Name, val)
			return
		}
	}
	if p == nil {
		return
	}
	if val, ok := p.Get(fl.Name); ok {
		f.set[fl.Name] = true
		f.Set(fl.Name, val)
	}
}
`,
		Expect: `C15.R2`,
	},
	{
		Name: `fallbacks applied before the command line marks are taken`,
		File: `config/flagset.go`,
		Old: `	// determine all values that were set via cmdline
	f.Visit(func(fl *flag.Flag) {
		f.set[fl.Name] = true
	})

	// lookup the rest via environ and properties
	f.VisitAll(func(fl *flag.Flag) {
		// skip if already set
		if f.set[fl.Name] {
			return
		}

		// check environment variables
		for _, pfx := range prefixes {
			name := strings.ToUpper(pfx + strings.Replace(fl.Name, ".", "_", -1))
			if val, ok := env[name]; ok {
				f.set[fl.Name] = true
				f.Set(fl.Name, val)
				return
			}
		}

		// check properties
		if p == nil {
			return
		}
		if val, ok := p.Get(fl.Name); ok {
			f.set[fl.Name] = true
			f.Set(fl.Name, val)
			return
		}
	})
	return nil
}
`,
		New: `	// lookup the rest via environ and properties
	f.VisitAll(func(fl *flag.Flag) {
		// skip if already set
		if f.set[fl.Name] {
			return
		}

		// check environment variables
		for _, pfx := range prefixes {
			name := strings.ToUpper(pfx + strings.Replace(fl.Name, ".", "_", -1))
			if val, ok := env[name]; ok {
				f.set[fl.Name] = true
				f.Set(fl.Name, val)
				return
			}
		}

		// check properties
		if p == nil {
			return
		}
		if val, ok := p.Get(fl.Name); ok {
			f.set[fl.Name] = true
			f.Set(fl.Name, val)
			return
		}
	})

	// determine all values that were set via cmdline
	f.Visit(func(fl *flag.Flag) {
		f.set[fl.Name] = true
	})
	return nil
}
`,
		Expect: `C15.R2`,
	},
	{
		Name: `environment map keyed by the name as given`,
		File: `config/flagset.go`,
		Old: `		env[strings.ToUpper(p[0])] = p[1]
`,
		New: `		env[p[0]] = p[1]
`,
		Expect: `C15.R3`,
	},
	{
		Name: `dots not replaced in the environment name`,
		File: `config/flagset.go`,
		Old: `			name := strings.ToUpper(pfx + strings.Replace(fl.Name, ".", "_", -1))
`,
		New: `			name := strings.ToUpper(pfx + fl.Name)
`,
		Expect: `C15.R3`,
	},
	{
		Name: `prefix appended instead of prepended (name helper)`,
		File: `config/flagset.go`,
		Old: `	// lookup the rest via environ and properties
	f.VisitAll(func(fl *flag.Flag) {
		// skip if already set
		if f.set[fl.Name] {
			return
		}

		// check environment variables
		for _, pfx := range prefixes {
			name := strings.ToUpper(pfx + strings.Replace(fl.Name, ".", "_", -1))
			if val, ok := env[name]; ok {
				f.set[fl.Name] = true
				f.Set(fl.Name, val)
				return
			}
		}

		// check properties
		if p == nil {
			return
		}
		if val, ok := p.Get(fl.Name); ok {
			f.set[fl.Name] = true
			f.Set(fl.Name, val)
			return
		}
	})
	return nil
}
`,
		New: `	// lookup the rest via environ and properties
	f.VisitAll(func(fl *flag.Flag) {
		if f.IsSet(fl.Name) {
			return
		}
		for _, pfx := range prefixes {
			if val, ok := env[envName(pfx, fl.Name)]; ok {
				f.assign(fl.Name, val)
				return
			}
		}
		if p != nil {
			if val, ok := p.Get(fl.Name); ok {
				f.assign(fl.Name, val)
			}
		}
	})
	return nil
}

// assign records the flag as set and parses the value into it.
func (f *FlagSet) assign(name, val string) {
	f.set[name] = true
	f.Set(name, val)
}

func envName(pfx, name string) string {
	return strings.ToUpper(strings.ReplaceAll(name, ".", "_") + pfx)
}
`,
		Expect: `C15.R3`,
	},
	{
		Name:   `benign: configuration variable renamed`,
		File:   `config/load.go`,
		Old:    `cfg.`,
		New:    `conf.`,
		Expect: ``,
		All:    true,
		More: []repl{
			{Old: `func load(cmdline, environ, envprefix []string, props *properties.Properties) (cfg *Config, err error) {
	cfg = &Config{}
`, New: `func load(cmdline, environ, envprefix []string, props *properties.Properties) (conf *Config, err error) {
	conf = &Config{}
`},
			{Old: `	return cfg, nil
}

// parseScheme splits a url into scheme and address and defaults
`, New: `	return conf, nil
}

// parseScheme splits a url into scheme and address and defaults
`},
		},
	},
	{
		Name:   `benign: local of a post-processed option renamed`,
		File:   `config/load.go`,
		Old:    `listenerValue`,
		New:    `listenSpec`,
		Expect: ``,
		All:    true,
	},
	{
		Name: `benign: sub-struct aliases for a group of registrations`,
		File: `config/load.go`,
		Old: `	f.IntVar(&cfg.Proxy.MaxConn, "proxy.maxconn", defaultConfig.Proxy.MaxConn, "maximum number of cached connections")
	f.StringVar(&cfg.Proxy.Strategy, "proxy.strategy", defaultConfig.Proxy.Strategy, "load balancing strategy")
`,
		New: `	px, dpx := &cfg.Proxy, defaultConfig.Proxy
	f.IntVar(&px.MaxConn, "proxy.maxconn", dpx.MaxConn, "maximum number of cached connections")
	f.StringVar(&px.Strategy, "proxy.strategy", dpx.Strategy, "load balancing strategy")
`,
		Expect: ``,
	},
	{
		Name: `benign: registrations through a local wrapper closure and an extracted helper`,
		File: `config/load.go`,
		Old: `	f.StringVar(&cfg.Log.AccessFormat, "log.access.format", defaultConfig.Log.AccessFormat, "access log format")
	f.StringVar(&cfg.Log.AccessTarget, "log.access.target", defaultConfig.Log.AccessTarget, "access log target")
`,
		New: `	str := func(p *string, name, def, usage string) { f.StringVar(p, name, def, usage) }
	str(&cfg.Log.AccessFormat, "log.access.format", defaultConfig.Log.AccessFormat, "access log format")
	str(&cfg.Log.AccessTarget, "log.access.target", defaultConfig.Log.AccessTarget, "access log target")
	registerUIFlags(f, &cfg.UI, &defaultConfig.UI)
`,
		Expect: ``,
		More: []repl{
			{Old: `	f.StringVar(&cfg.UI.Color, "ui.color", defaultConfig.UI.Color, "background color of the UI")
	f.StringVar(&cfg.UI.Title, "ui.title", defaultConfig.UI.Title, "optional title for the UI")
`, New: ``},
			{Old: `// parseScheme splits a url into scheme and address and defaults
`, New: `func registerUIFlags(f *FlagSet, ui, def *UI) {
	f.StringVar(&ui.Color, "ui.color", def.Color, "background color of the UI")
	f.StringVar(&ui.Title, "ui.title", def.Title, "optional title for the UI")
}

// parseScheme splits a url into scheme and address and defaults
`},
		},
	},
	{
		Name: `benign: prefixes in a package-level variable`,
		File: `config/load.go`,
		Old: `	envprefix := []string{"FABIO_", ""}
	return load(cmdline, environ, envprefix, props)
`,
		New: `	return load(cmdline, environ, envPrefixes, props)
`,
		Expect: ``,
		More: []repl{
			{Old: `var errInvalidConfig = errors.New("invalid or missing path to config file")
`, New: `var errInvalidConfig = errors.New("invalid or missing path to config file")

// envPrefixes lists the prefixes of the environment variables in the order of their precedence.
var envPrefixes = []string{"FABIO_", ""}
`},
		},
	},
	{
		Name: `benign: enumerations validated with a oneOf helper, ranges with a checkRange helper (method on Config)`,
		File: `config/load.go`,
		Old: `	if cfg.Proxy.Strategy != "rr" && cfg.Proxy.Strategy != "rnd" {
		return nil, fmt.Errorf("invalid proxy.strategy: %s", cfg.Proxy.Strategy)
	}

	if cfg.Proxy.Matcher != "prefix" && cfg.Proxy.Matcher != "glob" && cfg.Proxy.Matcher != "iprefix" {
		return nil, fmt.Errorf("invalid proxy.matcher: %s", cfg.Proxy.Matcher)
	}
`,
		New: `	if !oneOf(cfg.Proxy.Strategy, "rr", "rnd") {
		return nil, fmt.Errorf("invalid proxy.strategy: %s", cfg.Proxy.Strategy)
	}

	if !oneOf(cfg.Proxy.Matcher, "prefix", "glob", "iprefix") {
		return nil, fmt.Errorf("invalid proxy.matcher: %s", cfg.Proxy.Matcher)
	}
`,
		Expect: ``,
		More: []repl{
			{Old: `	// go1.10 will not accept a non-three digit status code
	if cfg.Proxy.NoRouteStatus < 100 || cfg.Proxy.NoRouteStatus > 999 {
		return nil, fmt.Errorf("proxy.noroutestatus must be between 100 and 999")
	}

	if cfg.GlobCacheSize < 0 {
		return nil, fmt.Errorf("glob.cache.size must not be negative")
	}
`, New: `	if err := cfg.checkRanges(); err != nil {
		return nil, err
	}
`},
			{Old: `// parseScheme splits a url into scheme and address and defaults
`, New: `func oneOf(v string, allowed ...string) bool {
	for _, a := range allowed {
		if a == v {
			return true
		}
	}
	return false
}

func checkRange(name string, v, lo, hi int) error {
	if v < lo || v > hi {
		return fmt.Errorf("%s must be between %d and %d", name, lo, hi)
	}
	return nil
}

func (cfg *Config) checkRanges() error {
	// go1.10 will not accept a non-three digit status code
	if err := checkRange("proxy.noroutestatus", cfg.Proxy.NoRouteStatus, 100, 999); err != nil {
		return err
	}
	return checkRange("glob.cache.size", cfg.GlobCacheSize, 0, 1<<30)
}

// parseScheme splits a url into scheme and address and defaults
`},
		},
	},
	{
		Name: `benign: enumerations validated with set literals`,
		File: `config/load.go`,
		Old: `	if cfg.Proxy.Strategy != "rr" && cfg.Proxy.Strategy != "rnd" {
		return nil, fmt.Errorf("invalid proxy.strategy: %s", cfg.Proxy.Strategy)
	}

	if cfg.Proxy.Matcher != "prefix" && cfg.Proxy.Matcher != "glob" && cfg.Proxy.Matcher != "iprefix" {
		return nil, fmt.Errorf("invalid proxy.matcher: %s", cfg.Proxy.Matcher)
	}
`,
		New: `	strategies := map[string]bool{"rr": true, "rnd": true}
	if !strategies[cfg.Proxy.Strategy] {
		return nil, fmt.Errorf("invalid proxy.strategy: %s", cfg.Proxy.Strategy)
	}

	switch m := cfg.Proxy.Matcher; m {
	case "prefix", "glob", "iprefix":
	default:
		return nil, fmt.Errorf("invalid proxy.matcher: %s", m)
	}
`,
		Expect: ``,
	},
	{
		Name: `benign: range checks with operands swapped and positive form`,
		File: `config/load.go`,
		Old: `	// go1.10 will not accept a non-three digit status code
	if cfg.Proxy.NoRouteStatus < 100 || cfg.Proxy.NoRouteStatus > 999 {
		return nil, fmt.Errorf("proxy.noroutestatus must be between 100 and 999")
	}

	if cfg.GlobCacheSize < 0 {
		return nil, fmt.Errorf("glob.cache.size must not be negative")
	}
`,
		New: `	// go1.10 will not accept a non-three digit status code
	if s := cfg.Proxy.NoRouteStatus; !(100 <= s && s <= 999) {
		return nil, fmt.Errorf("proxy.noroutestatus must be between 100 and 999")
	}

	if 0 > cfg.GlobCacheSize {
		return nil, fmt.Errorf("glob.cache.size must not be negative")
	}
`,
		Expect: ``,
	},
	{
		Name: `range helper called but its error dropped`,
		File: `config/load.go`,
		Old: `	// go1.10 will not accept a non-three digit status code
	if cfg.Proxy.NoRouteStatus < 100 || cfg.Proxy.NoRouteStatus > 999 {
		return nil, fmt.Errorf("proxy.noroutestatus must be between 100 and 999")
	}

	if cfg.GlobCacheSize < 0 {
		return nil, fmt.Errorf("glob.cache.size must not be negative")
	}
`,
		New: `	// go1.10 will not accept a non-three digit status code
	if cfg.Proxy.NoRouteStatus < 100 || cfg.Proxy.NoRouteStatus > 999 {
		return nil, fmt.Errorf("proxy.noroutestatus must be between 100 and 999")
	}

	if err := checkGlob(cfg); err != nil {
		log.Printf("[WARN] %s", err)
	}
`,
		Expect: `C15.V1`,
		More: []repl{
			{Old: `// parseScheme splits a url into scheme and address and defaults
`, New: `func checkGlob(cfg *Config) error {
	if cfg.GlobCacheSize < 0 {
		return fmt.Errorf("glob.cache.size must not be negative")
	}
	return nil
}

// parseScheme splits a url into scheme and address and defaults
`},
		},
	},
	{
		Name: `glob cache size rejected only together with another option (size test first)`,
		File: `config/load.go`,
		Old: `	if cfg.GlobCacheSize < 0 {
`,
		New: `	if cfg.GlobCacheSize < 0 && !cfg.GlobMatchingDisabled {
`,
		Expect: `C15.V1`,
	},
	{
		Name: `oneOf helper given the lower-cased option`,
		File: `config/load.go`,
		Old: `	if cfg.Proxy.Strategy != "rr" && cfg.Proxy.Strategy != "rnd" {
		return nil, fmt.Errorf("invalid proxy.strategy: %s", cfg.Proxy.Strategy)
	}

	if cfg.Proxy.Matcher != "prefix" && cfg.Proxy.Matcher != "glob" && cfg.Proxy.Matcher != "iprefix" {
		return nil, fmt.Errorf("invalid proxy.matcher: %s", cfg.Proxy.Matcher)
	}
`,
		New: `	if !oneOf(strings.ToLower(cfg.Proxy.Strategy), "rr", "rnd") {
		return nil, fmt.Errorf("invalid proxy.strategy: %s", cfg.Proxy.Strategy)
	}

	if !oneOf(cfg.Proxy.Matcher, "prefix", "glob", "iprefix") {
		return nil, fmt.Errorf("invalid proxy.matcher: %s", cfg.Proxy.Matcher)
	}
`,
		Expect: `C15.V3`,
		More: []repl{
			{Old: `// parseScheme splits a url into scheme and address and defaults
`, New: `func oneOf(v string, allowed ...string) bool {
	for _, a := range allowed {
		if a == v {
			return true
		}
	}
	return false
}

// parseScheme splits a url into scheme and address and defaults
`},
		},
	},
	{
		Name: `matcher set literal lacks a registered key`,
		File: `config/load.go`,
		Old: `	if cfg.Proxy.Strategy != "rr" && cfg.Proxy.Strategy != "rnd" {
		return nil, fmt.Errorf("invalid proxy.strategy: %s", cfg.Proxy.Strategy)
	}

	if cfg.Proxy.Matcher != "prefix" && cfg.Proxy.Matcher != "glob" && cfg.Proxy.Matcher != "iprefix" {
		return nil, fmt.Errorf("invalid proxy.matcher: %s", cfg.Proxy.Matcher)
	}
`,
		New: `	if cfg.Proxy.Strategy != "rr" && cfg.Proxy.Strategy != "rnd" {
		return nil, fmt.Errorf("invalid proxy.strategy: %s", cfg.Proxy.Strategy)
	}

	matchers := map[string]bool{"prefix": true, "glob": true, "iprefix": true, "regexp": true}
	if !matchers[cfg.Proxy.Matcher] {
		return nil, fmt.Errorf("invalid proxy.matcher: %s", cfg.Proxy.Matcher)
	}
`,
		Expect: `C15.V3`,
	},
	{
		Name: `defaults of two post-processed options swapped`,
		File: `config/load.go`,
		Old: `	f.StringVar(&listenerValue, "proxy.addr", defaultValues.ListenerValue, "listener config")
`,
		New: `	f.StringVar(&listenerValue, "proxy.addr", defaultValues.UIListenerValue, "listener config")
`,
		Expect: `C15.R1`,
	},
	{
		Name: `wrapper closure registers a flag with another option's default`,
		File: `config/load.go`,
		Old: `	f.StringVar(&cfg.Log.AccessFormat, "log.access.format", defaultConfig.Log.AccessFormat, "access log format")
	f.StringVar(&cfg.Log.AccessTarget, "log.access.target", defaultConfig.Log.AccessTarget, "access log target")
`,
		New: `	str := func(p *string, name, def, usage string) { f.StringVar(p, name, def, usage) }
	str(&cfg.Log.AccessFormat, "log.access.format", defaultConfig.Log.AccessFormat, "access log format")
	str(&cfg.Log.AccessTarget, "log.access.target", defaultConfig.Log.AccessFormat, "access log target")
`,
		Expect: `C15.R1`,
	},
	{
		Name: `extracted registration helper binds two flags to one field`,
		File: `config/load.go`,
		Old: `	f.StringVar(&cfg.UI.Color, "ui.color", defaultConfig.UI.Color, "background color of the UI")
	f.StringVar(&cfg.UI.Title, "ui.title", defaultConfig.UI.Title, "optional title for the UI")
`,
		New: `	registerUIFlags(f, &cfg.UI, &defaultConfig.UI)
`,
		Expect: `C15.R1`,
		More: []repl{
			{Old: `// parseScheme splits a url into scheme and address and defaults
`, New: `func registerUIFlags(f *FlagSet, ui, def *UI) {
	f.StringVar(&ui.Color, "ui.color", def.Color, "background color of the UI")
	f.StringVar(&ui.Color, "ui.title", def.Title, "optional title for the UI")
}

// parseScheme splits a url into scheme and address and defaults
`},
		},
	},
	{
		Name: `only the prefixed variables are honoured`,
		File: `config/load.go`,
		Old: `	envprefix := []string{"FABIO_", ""}
`,
		New: `	envprefix := []string{"FABIO_"}
`,
		Expect: `C15.R3`,
	},
	{
		Name: `benign: glob cache built by a helper of main, size through a local`,
		File: `main.go`,
		Old: `	//Init Glob Cache
	globCache := route.NewGlobCache(cfg.GlobCacheSize)

	proxyInterceptor := proxy.GrpcProxyInterceptor{
`,
		New: `	globCache := newGlobCache(cfg)

	proxyInterceptor := proxy.GrpcProxyInterceptor{
`,
		Expect: ``,
		More: []repl{
			{Old: `func newHTTPProxy(cfg *config.Config, statsHandler *proxy.HttpStatsHandler) *proxy.HTTPProxy {
`, New: `// newGlobCache creates the cache of compiled glob patterns.
func newGlobCache(cfg *config.Config) *route.GlobCache {
	size := cfg.GlobCacheSize
	return route.NewGlobCache(size)
}

func newHTTPProxy(cfg *config.Config, statsHandler *proxy.HttpStatsHandler) *proxy.HTTPProxy {
`},
		},
	},
	{
		Name: `benign: concurrency clamp written with max`,
		File: `registry/consul/service.go`,
		Old: `	n := w.config.ServiceMonitors
	if n <= 0 {
		n = 1
	}

	sem := make(chan int, n)
`,
		New: `	sem := make(chan int, max(w.config.ServiceMonitors, 1))
`,
		Expect: ``,
	},
	{
		Name: `concurrency clamp removed`,
		File: `registry/consul/service.go`,
		Old: `	n := w.config.ServiceMonitors
	if n <= 0 {
		n = 1
	}

	sem := make(chan int, n)
`,
		New: `	sem := make(chan int, w.config.ServiceMonitors)
`,
		Expect: `C15.V1`,
	},
	{
		Name: `benign: no-route response written by a helper method`,
		File: `proxy/http_proxy.go`,
		Old: `		status := p.Config.NoRouteStatus
		if status < 100 || status > 999 {
			status = http.StatusNotFound
		}
		w.WriteHeader(status)
`,
		New: `		p.writeNoRouteStatus(w)
`,
		Expect: ``,
		More: []repl{
			{Old: `func (p *HTTPProxy) ServeHTTP(w http.ResponseWriter, r *http.Request) {
`, New: `func (p *HTTPProxy) writeNoRouteStatus(w http.ResponseWriter) {
	status := p.Config.NoRouteStatus
	if status < 100 || status > 999 {
		status = http.StatusNotFound
	}
	w.WriteHeader(status)
}

func (p *HTTPProxy) ServeHTTP(w http.ResponseWriter, r *http.Request) {
`},
		},
	},
	{
		Name: `benign: consul client construction extracted, error handled by the caller`,
		File: `cert/consul_source.go`,
		Old: `	client, err := api.NewClient(config)
	if err != nil {
		log.Printf("[ERROR] cert: Failed to create consul client. %s", err)
		return nil
	}
`,
		New: `	client, err := newConsulClient(config)
	switch {
	case err != nil:
		log.Printf("[ERROR] cert: Failed to create consul client. %s", err)
		return nil
	}
`,
		Expect: ``,
		More: []repl{
			{Old: `func (s ConsulSource) Certificates() chan []tls.Certificate {
`, New: `func newConsulClient(config *api.Config) (*api.Client, error) {
	return api.NewClient(config)
}

func (s ConsulSource) Certificates() chan []tls.Certificate {
`},
		},
	},
	{
		Name: `extracted consul client constructor, caller only logs the error`,
		File: `cert/consul_source.go`,
		Old: `	client, err := api.NewClient(config)
	if err != nil {
		log.Printf("[ERROR] cert: Failed to create consul client. %s", err)
		return nil
	}
`,
		New: `	client, err := newConsulClient(config)
	if err != nil {
		log.Printf("[ERROR] cert: Failed to create consul client. %s", err)
	}
`,
		Expect: `C15.V2`,
		More: []repl{
			{Old: `func (s ConsulSource) Certificates() chan []tls.Certificate {
`, New: `func newConsulClient(config *api.Config) (*api.Client, error) {
	return api.NewClient(config)
}

func (s ConsulSource) Certificates() chan []tls.Certificate {
`},
		},
	},
	{
		Name: `benign: environment entries split with strings.Cut everywhere`,
		File: `config/flagset.go`,
		Old: `		p := strings.SplitN(e, "=", 2)
		if len(p) != 2 {
			// ignore entries without a value
			continue
		}
		env[strings.ToUpper(p[0])] = p[1]
`,
		New: `		k, v, found := strings.Cut(e, "=")
		if !found {
			// ignore entries without a value
			continue
		}
		env[strings.ToUpper(k)] = v
`,
		Expect: ``,
	},
	{
		Name: `prefix stripped from the keys with CutPrefix`,
		File: `config/flagset.go`,
		Old: `		env[strings.ToUpper(p[0])] = p[1]
`,
		New: `		k, _ := strings.CutPrefix(strings.ToUpper(p[0]), "FABIO_")
		env[k] = p[1]
`,
		Expect: `C15.R3`,
	},
	{
		Name: `benign: lookup closure kept in a variable, presence handed on`,
		File: `config/flagset.go`,
		Old: `	// lookup the rest via environ and properties
	f.VisitAll(func(fl *flag.Flag) {
		// skip if already set
		if f.set[fl.Name] {
			return
		}

		// check environment variables
		for _, pfx := range prefixes {
			name := strings.ToUpper(pfx + strings.Replace(fl.Name, ".", "_", -1))
			if val, ok := env[name]; ok {
				f.set[fl.Name] = true
				f.Set(fl.Name, val)
				return
			}
		}

		// check properties
		if p == nil {
			return
		}
		if val, ok := p.Get(fl.Name); ok {
			f.set[fl.Name] = true
			f.Set(fl.Name, val)
			return
		}
	})
	return nil
}
`,
		New: `	// lookup returns the value of a flag from the environment or from the properties, in that order.
	lookup := func(name string) (string, bool) {
		envname := strings.ToUpper(strings.Replace(name, ".", "_", -1))
		for _, pfx := range prefixes {
			if val, ok := env[strings.ToUpper(pfx)+envname]; ok {
				return val, true
			}
		}
		if p == nil {
			return "", false
		}
		return p.Get(name)
	}

	// lookup the rest via environ and properties
	f.VisitAll(func(fl *flag.Flag) {
		if f.set[fl.Name] {
			return
		}
		if val, ok := lookup(fl.Name); ok {
			f.set[fl.Name] = true
			f.Set(fl.Name, val)
		}
	})
	return nil
}
`,
		Expect: ``,
	},
	{
		Name: `lookup closure prefers the properties when both have a value`,
		File: `config/flagset.go`,
		Old: `	// lookup the rest via environ and properties
	f.VisitAll(func(fl *flag.Flag) {
		// skip if already set
		if f.set[fl.Name] {
			return
		}

		// check environment variables
		for _, pfx := range prefixes {
			name := strings.ToUpper(pfx + strings.Replace(fl.Name, ".", "_", -1))
			if val, ok := env[name]; ok {
				f.set[fl.Name] = true
				f.Set(fl.Name, val)
				return
			}
		}

		// check properties
		if p == nil {
			return
		}
		if val, ok := p.Get(fl.Name); ok {
			f.set[fl.Name] = true
			f.Set(fl.Name, val)
			return
		}
	})
	return nil
}
`,
		New: `	// lookup returns the value of a flag from the environment or from the properties, in that order.
	lookup := func(name string) (string, bool) {
		envname := strings.ToUpper(strings.Replace(name, ".", "_", -1))
		ev, eok := "", false
		for _, pfx := range prefixes {
			if ev, eok = env[strings.ToUpper(pfx)+envname]; eok {
				break
			}
		}
		if p != nil {
			if pv, pok := p.Get(name); pok {
				return pv, true
			}
		}
		return ev, eok
	}

	// lookup the rest via environ and properties
	f.VisitAll(func(fl *flag.Flag) {
		if f.set[fl.Name] {
			return
		}
		if val, ok := lookup(fl.Name); ok {
			f.set[fl.Name] = true
			f.Set(fl.Name, val)
		}
	})
	return nil
}
`,
		Expect: `C15.R2`,
	},
	{
		Name: `benign: environment name built with Sprintf`,
		File: `config/flagset.go`,
		Old: `			name := strings.ToUpper(pfx + strings.Replace(fl.Name, ".", "_", -1))
`,
		New: `			name := strings.ToUpper(fmt.Sprintf("%s%s", pfx, strings.ReplaceAll(fl.Name, ".", "_")))
`,
		Expect: ``,
	},
	{
		Name: `benign: entries without '=' skipped with len < 2`,
		File: `config/flagset.go`,
		Old: `		if len(p) != 2 {
			// ignore entries without a value
			continue
		}
		env[strings.ToUpper(p[0])] = p[1]
`,
		New: `		if len(p) < 2 {
			continue
		}
		env[strings.ToUpper(p[0])] = p[1]
`,
		Expect: ``,
	},
	{
		Name: `benign: entries with '=' stored in the positive branch`,
		File: `config/flagset.go`,
		Old: `		if len(p) != 2 {
			// ignore entries without a value
			continue
		}
		env[strings.ToUpper(p[0])] = p[1]
`,
		New: `		if len(p) == 2 {
			env[strings.ToUpper(p[0])] = p[1]
		}
`,
		Expect: ``,
	},
	{
		Name: `benign: default configuration obtained through a function`,
		File: `config/load.go`,
		Old: `	f.IntVar(&cfg.Proxy.MaxConn, "proxy.maxconn", defaultConfig.Proxy.MaxConn, "maximum number of cached connections")
	f.StringVar(&cfg.Proxy.Strategy, "proxy.strategy", defaultConfig.Proxy.Strategy, "load balancing strategy")
`,
		New: `	dc := defaults()
	f.IntVar(&cfg.Proxy.MaxConn, "proxy.maxconn", dc.Proxy.MaxConn, "maximum number of cached connections")
	f.StringVar(&cfg.Proxy.Strategy, "proxy.strategy", dc.Proxy.Strategy, "load balancing strategy")
`,
		Expect: ``,
		More: []repl{
			{Old: `// parseScheme splits a url into scheme and address and defaults
`, New: `func defaults() *Config { return defaultConfig }

// parseScheme splits a url into scheme and address and defaults
`},
		},
	},
	{
		Name: `flag takes the zero value of its own variable as default`,
		File: `config/load.go`,
		Old: `	f.IntVar(&cfg.Proxy.MaxConn, "proxy.maxconn", defaultConfig.Proxy.MaxConn, "maximum number of cached connections")
`,
		New: `	f.IntVar(&cfg.Proxy.MaxConn, "proxy.maxconn", cfg.Proxy.MaxConn, "maximum number of cached connections")
`,
		Expect: `C15.R1`,
	},
	{
		Name: `benign: ParseFlags delegates to unexported steps`,
		File: `config/flagset.go`,
		Old: `func (f *FlagSet) ParseFlags(args, environ, prefixes []string, p *properties.Properties) error {
	if err := f.Parse(args); err != nil {
		return err
	}
`,
		New: `func (f *FlagSet) ParseFlags(args, environ, prefixes []string, p *properties.Properties) error {
	if err := f.Parse(args); err != nil {
		return err
	}
	f.fillIn(environ, prefixes, p)
	return nil
}

func (f *FlagSet) fillIn(environ, prefixes []string, p *properties.Properties) error {
`,
		Expect: ``,
	},
	{
		Name:   `benign: unexported loader renamed`,
		File:   `config/load.go`,
		Old:    `func load(cmdline, environ, envprefix []string`,
		New:    `func loadConfig(cmdline, environ, envprefix []string`,
		Expect: ``,
		More: []repl{
			{Old: `	return load(cmdline, environ, envprefix, props)
`, New: `	return loadConfig(cmdline, environ, envprefix, props)
`},
		},
	},
	{
		Name:   `benign: locals of post-processed options gathered in a struct`,
		File:   `config/load.go`,
		Old:    `listenerValue`,
		New:    `vals.listener`,
		Expect: ``,
		All:    true,
		More: []repl{
			{Old: `	var vals.listener string
`, New: `	var vals struct{ listener string }
`},
		},
	},
	{
		Name: `prefix list walked backwards`,
		File: `config/flagset.go`,
		Old: `		for _, pfx := range prefixes {
			name := strings.ToUpper(pfx + strings.Replace(fl.Name, ".", "_", -1))
`,
		New: `		for i := len(prefixes) - 1; i >= 0; i-- {
			pfx := prefixes[i]
			name := strings.ToUpper(pfx + strings.Replace(fl.Name, ".", "_", -1))
`,
		Expect: `C15.R3`,
	},
	{
		Name: `benign: glob cache list allocated with a capacity and resliced`,
		File: `route/glob_cache.go`,
		Old: `	return &GlobCache{
		l: make([]string, size),
	}
`,
		New: `	c := &GlobCache{}
	c.l = make([]string, 0, size)[:size]
	return c
`,
		Expect: ``,
	},
}
