package main

// Wires the rules of round3.go to their properties (file name sorts after c01.go ... c20.go, whose init functions
// register the properties).

func init() {
	chain := func(id string, extra ...func(*Ctx)) {
		p := props[id]
		if p == nil {
			return
		}
		old := p.Run
		p.Run = func(c *Ctx) {
			old(c)
			for _, f := range extra {
				f(c)
			}
		}
	}
	explain := func(id, text string) {
		if p := props[id]; p != nil {
			p.Explain += " Also (rules added after the third round of independently written breaking changes, DESIGN 11.10): " + text
		}
	}
	explain("C01", "(W4) in a loop that sends the text of a Consul KV query the only skips of the send are the error edge and 'text == last text'.")
	explain("C02", "in-place library calls are seen through sort.Reverse and slice-type conversions (A3).")
	explain("C06", "(S7) library objects not safe for concurrent use (*rand.Rand, bytes.Buffer, strings.Builder) kept in package-level state are used on the request path only under a lock.")
	explain("C07", "(N2) one load of the no-route page per path; (W2) a wrapper's Flush forwards on every path on which the wrapped writer is a Flusher.")
	explain("C08", "(A4) no value the X-Forwarded-Proto write can take is the constant \"\".")
	explain("C09", "(B8) a buffer handed to a goroutine is not put into a sync.Pool by the function that started it.")
	explain("C11", "(L5) every computed time.Sleep of the watcher loops has a proven lower bound of at least 1ms; (A3) nothing writes into memory obtained from the atomic holder of the published set.")
	explain("C12", "(F4) after net.ParseIP of the peer address no 'not denied' return without consulting the decision function.")
	explain("C14", "(W2) numbers parsed from the registration are not formatted back into the command; (U1) the update loop reaches the parse of a changed candidate text on every path.")
	explain("C15", "(P2) len()-relative slice bounds in package config are covered by a length fact.")
	explain("C16", "(P5) a connection leaves the pool closed or known shut down on every path of the janitor's iteration.")
	explain("C17", "(S2) the sniffed content type is written only under a map-presence test; (F2) no header-committing call on the wrapped writer before the decision field is set on every path.")
	explain("C18", "(D3) no unbounded wait inside sync.Once.Do; (L2) no Shutdown(ctx) of a server while a lock is held.")
	chain("C01", runC01W4)
	chain("C06", runC06S7)
	chain("C07", runC07N2, runC07W2)
	chain("C08", runC08A4)
	chain("C09", runC09B8)
	chain("C11", runC11L5, runC11A3)
	chain("C12", runC12F4)
	chain("C14", runC14W2, runC14U1)
	chain("C15", runC15P2)
	chain("C16", runC16P5)
	chain("C17", runC17S2, runC17F2)
	chain("C18", runC18D3, runC18L2)
}
