package main

import (
	"go/token"
	"go/types"
	"math"

	"golang.org/x/tools/go/ssa"
)

// Struct VALUES in the C10 prover, and what a successful validation call establishes (round-3 hardening).
//
// A refactoring that decodes the header into a small struct (`h := decodeHeader(data)`), validates it in a second step
// (`if err := h.validate(); err != nil`) and computes from it in a third moves the quantities the rules speak about
// out of SSA registers into the fields of a struct that is passed and returned BY VALUE. Two things are needed to follow
// them, both general:
//
//   - FIELD TERMS. c10term{v, fld: k+1} is (the length of) field k of the struct-typed SSA value v - an immutable
//     quantity like v itself. Its definition follows v: a call result is bounded by the same field of what the callee
//     returns (importResult); a parameter by the same field of what every caller passes (importParams); a load of a
//     whole struct by what the memory walk of c10_mem.go finds at that field of the location (a store of the field, or
//     a store of a whole struct value, whose field it then is); a merge by the hull. Conversely an integer load whose
//     location was last written by a store of a whole struct IS that field of the stored value (c10src.fld).
//
//   - POSTCONDITIONS. When the facts at a block say that a call of a repository function reported success (its error
//     is nil, its flag is true - or false), every difference between two parameter terms (parameters, lengths of
//     parameters, fields of struct parameters, zero) that holds at EVERY return of the callee compatible with that
//     verdict holds between the corresponding argument terms at the block: parameters are immutable, so what the
//     callee tested about them on its way to `return nil` is known about the arguments afterwards
//     (`if !fits(n, len(b)) { return }`, `if err := h.validate(); err != nil { return 0, err }`).
//
// Both are sound for the same reason the result summaries are: they restate, about immutable values of the caller,
// what the callee's own constraint systems prove about the corresponding immutable values at the returns that can
// have been taken.

// c10extractOf: the caller's name of result k of a call with several results (nil when it is not used).
func c10extractOf(call *ssa.Call, k int) *ssa.Extract {
	if call.Referrers() == nil {
		return nil
	}
	for _, r := range *call.Referrers() {
		if ex, ok := r.(*ssa.Extract); ok && ex.Index == k {
			return ex
		}
	}
	return nil
}

// c10resultTerm: the term for integer result k of call: the caller's name of it, or - when the caller discards it -
// the component of the tuple.
func c10resultTerm(call *ssa.Call, k int) c10term {
	if call.Call.Signature().Results().Len() == 1 {
		return c10termOf(call)
	}
	if ex := c10extractOf(call, k); ex != nil {
		return c10termOf(ex)
	}
	return c10term{v: call, fld: k + 1}
}

// c10re: the term t restated about the value v (same kind of quantity: the value, its length, a field of it).
func c10re(t c10term, v ssa.Value) c10term {
	if t.fld != 0 {
		return c10term{v: v, isLen: t.isLen, fld: t.fld}
	}
	if t.isLen {
		return c10len(v)
	}
	return c10termOf(v)
}

func c10structOf(t types.Type) *types.Struct {
	st, _ := t.Underlying().(*types.Struct)
	return st
}

// c10structOrPointee: the struct type of a struct value, or the one a pointer value points to.
func c10structOrPointee(t types.Type) *types.Struct {
	if st := c10structOf(t); st != nil {
		return st
	}
	return c10ptrStructOf(t)
}

// c10fieldTermOK: field k of struct value v (or of the struct the pointer v points to: a definition-point term) is an
// integer (isLen false) or has a length (isLen true).
func c10fieldTermOK(v ssa.Value, k int, isLen bool) bool {
	st := c10structOrPointee(v.Type())
	if st == nil || k < 0 || k >= st.NumFields() {
		return false
	}
	ft := st.Field(k).Type()
	if isLen {
		return c10hasLen(ft)
	}
	return isIntType(ft)
}

// c10fieldTerms: the terms of the fields of a struct-typed value - or of the struct a pointer points to at the point
// the pointer comes into being (DEFINITION-POINT terms: for a parameter the entry of its function, for the result of
// a call the return of that call) - the prover can speak about (at most 8).
func c10fieldTerms(v ssa.Value) []c10term {
	st := c10structOrPointee(v.Type())
	if st == nil {
		return nil
	}
	var out []c10term
	for k := 0; k < st.NumFields() && len(out) < 8; k++ {
		switch ft := st.Field(k).Type(); {
		case isIntType(ft):
			out = append(out, c10term{v: v, fld: k + 1})
		case c10hasLen(ft):
			out = append(out, c10term{v: v, isLen: true, fld: k + 1})
		}
	}
	return out
}

// paramArgTerms: the parameter terms of g (zero first) and the corresponding argument terms of call. The fields behind
// a pointer parameter (definition-point terms: their values at the entry of g) correspond to what is found at those
// fields of the argument's pointee when the call executes; a field about which that cannot be said is left out.
func (d *c10dbm) paramArgTerms(g *ssa.Function, call ssa.CallInstruction) (pts, ats []c10term) {
	pts, ats = []c10term{{}}, []c10term{{}}
	args := call.Common().Args
	var anchor *c10dbm
	for k, p := range g.Params {
		if k >= len(args) {
			break
		}
		a := args[k]
		switch {
		case isIntType(p.Type()):
			pts = append(pts, c10val(p))
			ats = append(ats, c10termOf(a))
		case c10hasLen(p.Type()):
			pts = append(pts, c10len(p))
			ats = append(ats, c10len(a))
		case c10structOf(p.Type()) != nil:
			for _, ft := range c10fieldTerms(p) {
				pts = append(pts, ft)
				ats = append(ats, c10re(ft, a))
			}
		case c10ptrStructOf(p.Type()) != nil:
			if call.Block() == nil {
				continue
			}
			if anchor == nil {
				anchor = d.px.at(call.Block(), d.depth)
			}
			for _, ft := range c10fieldTerms(p) {
				loc, ok := c10fieldLoc(a, ft.fld-1)
				if !ok {
					continue
				}
				if at, ok := d.px.locTermAt(loc, call, anchor, ft.isLen); ok {
					pts = append(pts, ft)
					ats = append(ats, at)
				}
			}
		}
	}
	return pts, ats
}

// restate: the term t (about result / parameter values of another function) restated about the value v of this
// system's function at instruction `at`: for a definition-point term the field of v's pointee as it is at `at`.
func (d *c10dbm) restate(t c10term, v ssa.Value, at ssa.Instruction) (c10term, bool) {
	if t.fld != 0 && c10ptrStructOf(v.Type()) != nil {
		loc, ok := c10fieldLoc(v, t.fld-1)
		if !ok {
			return c10term{}, false
		}
		return d.px.locTermAt(loc, at, d, t.isLen)
	}
	return c10re(t, v), true
}

// defineField: what follows from the definition of the struct value for one of its fields.
func (d *c10dbm) defineField(t c10term, i int) {
	k := t.fld - 1
	if tup, isTuple := t.v.Type().(*types.Tuple); isTuple {
		// component k of the results of a call that the caller did not name (`_, n, err := parse(b)`)
		call, isCall := t.v.(*ssa.Call)
		if !isCall || k < 0 || k >= tup.Len() {
			return
		}
		rt := tup.At(k).Type()
		if (t.isLen && !c10hasLen(rt)) || (!t.isLen && !isIntType(rt)) {
			return
		}
		if ex := c10extractOf(call, k); ex != nil {
			d.eq(i, d.node(c10re(c10term{isLen: t.isLen}, ex)), 0)
			return
		}
		if t.isLen {
			d.le(0, i, 0)
			d.le(i, 0, c10MaxLen)
		} else if lo, hi, okLo, okHi := c10typeRange(rt); okLo || okHi {
			if okLo {
				d.le(0, i, -lo)
			}
			if okHi {
				d.le(i, 0, hi)
			}
		}
		d.importCallResult(c10term{isLen: t.isLen}, i, call, k)
		return
	}
	if !c10fieldTermOK(t.v, k, t.isLen) {
		return
	}
	ft := c10structOrPointee(t.v.Type()).Field(k).Type()
	if t.isLen {
		d.le(0, i, 0)
		d.le(i, 0, c10MaxLen)
	} else if lo, hi, okLo, okHi := c10typeRange(ft); okLo || okHi {
		if okLo {
			d.le(0, i, -lo)
		}
		if okHi {
			d.le(i, 0, hi)
		}
	}
	if c10structOf(t.v.Type()) == nil {
		// a definition-point term: the field behind a pointer parameter at the entry of its function (what every
		// caller's memory holds there when it calls), behind a pointer result at the return of the call
		switch x := t.v.(type) {
		case *ssa.Parameter:
			d.importParams(x.Parent())
		case *ssa.Call, *ssa.Extract:
			d.importResult(t, i)
		}
		return
	}
	switch x := t.v.(type) {
	case *ssa.Const:
		d.eq(i, 0, 0) // the zero struct
	case *ssa.Parameter:
		d.importParams(x.Parent())
	case *ssa.Call, *ssa.Extract:
		d.importResult(t, i)
	case *ssa.Phi:
		d.importPhi(t, x, i)
	case *ssa.ChangeType:
		if c10structOf(x.X.Type()) != nil {
			d.eq(i, d.node(c10re(t, x.X)), 0)
		}
	case *ssa.UnOp:
		if x.Op != token.MUL || d.depth >= c10MaxDepth || d.px.loadBusy[x] {
			return
		}
		// the struct value itself is one value of this function (stored whole and read back): its field
		if cv := d.px.canon(x, d.px.at(x.Block(), d.depth)); cv != ssa.Value(x) {
			d.eq(i, d.node(c10re(t, cv)), 0)
			return
		}
		loc, ok := c10locOf(x.X)
		if !ok {
			return
		}
		if _, isElem := loc.root.(*ssa.IndexAddr); isElem {
			return
		}
		st := c10deref(x.X.Type())
		if st == nil {
			return
		}
		floc := c10loc{root: loc.root, path: append(append([]c10step{}, loc.path...), c10step{true, int64(k), st.Underlying()}), typ: ft}
		d.px.loadBusy[x] = true
		defer delete(d.px.loadBusy, x)
		// (the field location read at the point of the whole-struct load: the value of the field is the term's own
		// kind - an integer or something with a length - so the source terms carry no field unless a whole struct was
		// stored into a struct-typed field, which importLoc refuses)
		d.importLoc(c10term{v: t.v, isLen: t.isLen}, floc, x, i, false)
	}
}

// ---- postconditions of calls whose verdict is known ---------------------------------------------------------------------

// c10verdictFacts: the calls of repository functions about one of whose results the facts / assumptions of d say
// "nil", "true" or "false".
func (d *c10dbm) verdictFacts() []c10verdictFact {
	var out []c10verdictFact
	seen := map[c10verdictFact]bool{}
	add := func(v ssa.Value, kind int) {
		var call *ssa.Call
		idx := 0
		if l, isLoad := v.(*ssa.UnOp); isLoad && l.Op == token.MUL && l.Block() != nil {
			v = d.px.canon(l, d.px.at(l.Block(), d.depth)) // a verdict parked in a local variable and read back
		}
		switch x := v.(type) {
		case *ssa.Call:
			if x.Call.Signature().Results().Len() != 1 {
				return
			}
			call = x
		case *ssa.Extract:
			call, _ = x.Tuple.(*ssa.Call)
			idx = x.Index
		}
		if call == nil || call.Call.IsInvoke() {
			return
		}
		g := call.Call.StaticCallee()
		if g == nil || !isRepoFn(g) || len(g.Blocks) == 0 || g == call.Parent() || g == d.block.Parent() {
			return
		}
		vf := c10verdictFact{call, idx, kind}
		if !seen[vf] {
			seen[vf] = true
			out = append(out, vf)
		}
	}
	for _, a := range d.asm {
		add(a.v, a.kind)
	}
	for _, f := range d.facts {
		cond, truth := c10stripNot(f.Cond, f.Truth)
		if c10isBool(cond.Type()) {
			switch cond.(type) {
			case *ssa.Call, *ssa.Extract:
				if truth {
					add(cond, c10isTrue)
				} else {
					add(cond, c10isFalse)
				}
				continue
			}
		}
		b, isB := cond.(*ssa.BinOp)
		if !isB || (b.Op != token.EQL && b.Op != token.NEQ) {
			continue
		}
		other := b.X
		switch {
		case isNilConst(b.Y):
		case isNilConst(b.X):
			other = b.Y
		default:
			continue
		}
		if typeStr(other.Type()) != "error" {
			continue
		}
		if (b.Op == token.EQL) == truth {
			add(other, c10isNil)
		}
	}
	return out
}

type c10verdictFact struct {
	call *ssa.Call
	idx  int
	kind int
}

// importPost adds, once per system, what the callee of every call with a known verdict established about its
// arguments on the returns compatible with that verdict.
func (d *c10dbm) importPost() {
	if d.postDone {
		return
	}
	d.postDone = true
	if d.depth >= c10MaxDepth-1 {
		return
	}
	for _, vf := range d.verdictFacts() {
		// (the verdict has been reached here: a fact about a result is dominated by the call; an assumption speaks
		// about a value returned from this block, computed before)
		g := vf.call.Call.StaticCallee()
		pts, ats := d.paramArgTerms(g, vf.call)
		if len(pts) < 2 || len(pts) > 10 {
			continue
		}
		d.importRelations(g, []c10known{{vf.idx, vf.kind}}, ats, func(*ssa.Return, *c10dbm) []c10term { return pts })
	}
}

// importRelations adds every difference outer[a] - outer[b] <= w that holds between the corresponding terms
// inner(r)[a], inner(r)[b] at EVERY return r of g that is compatible with what is known about the results (kn); at
// those returns that knowledge is assumed about the returned values.
func (d *c10dbm) importRelations(g *ssa.Function, kn []c10known, outer []c10term, inner func(*ssa.Return, *c10dbm) []c10term) {
	n := len(outer)
	w := make([][]int64, n)
	ok := make([][]bool, n)
	for a := range w {
		w[a] = make([]int64, n)
		ok[a] = make([]bool, n)
		for b := range w[a] {
			w[a][b], ok[a][b] = math.MinInt64, a != b && outer[a] != outer[b]
		}
	}
	nRet := 0
	eachInstr(g, func(in ssa.Instruction) {
		r, isR := in.(*ssa.Return)
		if !isR || in.Parent() != g || c10returnExcluded(r, kn) {
			return
		}
		rd := d.px.atAssume(r.Block(), d.depth+1, c10returnAsm(r, kn))
		its := inner(r, rd)
		if len(its) != n {
			for a := range ok {
				for b := range ok[a] {
					ok[a][b] = false
				}
			}
			return
		}
		nRet++
		rd.importPost()
		ids := make([]int, n)
		for a := range its {
			ids[a] = rd.nodeOrZero(its[a])
		}
		rd.settle()
		for b := range its {
			dist := rd.dist(ids[b]) // dist[x]: the least proved c with x - b <= c
			for a := range its {
				if !ok[a][b] {
					continue
				}
				if u := dist[ids[a]]; u != c10Inf {
					w[a][b] = max(w[a][b], u)
				} else {
					ok[a][b] = false
				}
			}
		}
	})
	if nRet == 0 {
		return
	}
	for a := range outer {
		for b := range outer {
			if ok[a][b] && w[a][b] < c10MaxLen && w[a][b] > -c10MaxLen {
				d.le(d.nodeOrZero(outer[a]), d.nodeOrZero(outer[b]), w[a][b])
			}
		}
	}
}

// c10valueTerms: the terms of a value the prover can speak about: the value (an integer), its length (a slice or
// string), its integer / slice fields (a struct by value).
func c10valueTerms(v ssa.Value) []c10term {
	switch {
	case isIntType(v.Type()):
		return []c10term{c10termOf(v)}
	case c10hasLen(v.Type()):
		return []c10term{c10len(v)}
	}
	return c10fieldTerms(v)
}

// importResultRelations relates the RESULTS of one call of a repository function with one another (and with its
// arguments): `recLen, msgLen, err := parseHeader(data)` or `h, err := parseHeader(data)` hand back two quantities
// whose relation (msgLen <= recLen-4) was tested inside the helper; importResult alone bounds each of them against
// the arguments only. Done once per call and system, under what the system knows about the call's flag results.
func (d *c10dbm) importResultRelations(call *ssa.Call) {
	if d.relDone == nil {
		d.relDone = map[*ssa.Call]bool{}
	}
	if d.relDone[call] || d.depth >= c10MaxDepth {
		return
	}
	d.relDone[call] = true
	g := call.Call.StaticCallee()
	if g == nil || call.Call.IsInvoke() || !isRepoFn(g) || len(g.Blocks) == 0 || g == call.Parent() {
		return
	}
	res := call.Call.Signature().Results()
	type slot struct {
		res   int
		outer c10term // about the caller's name of the result (or the component of the tuple when it has none)
		tmpl  c10term // the same kind of quantity, to be restated about what a return hands out
	}
	var slots []slot
	for k := 0; k < res.Len(); k++ {
		var v ssa.Value
		if res.Len() == 1 {
			v = call
		} else if ex := c10extractOf(call, k); ex != nil {
			v = ex
		}
		if v != nil {
			for _, t := range c10valueTerms(v) {
				slots = append(slots, slot{k, t, t})
			}
			continue
		}
		switch rt := res.At(k).Type(); {
		case isIntType(rt):
			slots = append(slots, slot{k, c10term{v: call, fld: k + 1}, c10term{}})
		case c10hasLen(rt):
			slots = append(slots, slot{k, c10term{v: call, isLen: true, fld: k + 1}, c10term{isLen: true}})
		}
	}
	if len(slots) < 2 || len(slots) > 10 {
		return
	}
	outer := []c10term{{}}
	for _, s := range slots {
		outer = append(outer, s.outer)
	}
	d.importRelations(g, d.knownResults(call, -1), outer, func(r *ssa.Return, rd *c10dbm) []c10term {
		its := []c10term{{}}
		for _, s := range slots {
			if s.res >= len(r.Results) {
				return nil
			}
			it, ok := rd.restate(s.tmpl, r.Results[s.res], r)
			if !ok {
				return nil
			}
			its = append(its, it)
		}
		return its
	})
}

// ---- bytes of the input a field of a struct value is assembled from (roles) ---------------------------------------------

// c10fieldBytes reads field k of the struct value v as the big-endian value of consecutive bytes of one slice: v is
// the result of a repository helper every return of which hands out a struct whose field k was assembled from the
// same bytes of (what the call passes for) its parameter - `return helloHeader{recordLength: uint16(d[3])<<8 |
// uint16(d[4])}` - or a struct read back from the local it was stored in.
func c10fieldBytes(v ssa.Value, k int, b *c10bind, depth int) (c10ref, bool) {
	return c10fieldBytesAt(v, k, b, depth, nil)
}

// c10fieldBytesAt: at is the instruction at which the struct behind a POINTER v is read (the return that hands the
// pointer out); nil for struct values.
func c10fieldBytesAt(v ssa.Value, k int, b *c10bind, depth int, at ssa.Instruction) (c10ref, bool) {
	if depth > 8 || c10proverForRoles == nil || !c10fieldTermOK(v, k, false) {
		return c10ref{}, false
	}
	px := c10proverForRoles
	if c10ptrStructOf(v.Type()) != nil {
		switch x := v.(type) {
		case *ssa.Parameter:
			return c10paramFieldBytes(x, k, b, depth)
		case *ssa.Call:
			return c10callFieldBytes(x, 0, k, b, depth) // what the constructor left behind the pointer it returns
		case *ssa.Extract:
			if call, ok := x.Tuple.(*ssa.Call); ok {
				return c10callFieldBytes(call, x.Index, k, b, depth)
			}
			return c10ref{}, false
		}
		if at == nil || at.Block() == nil {
			return c10ref{}, false
		}
		loc, ok := c10fieldLoc(v, k)
		if !ok {
			return c10ref{}, false
		}
		cv, cf := px.canonAt(loc, at, nil, px.at(at.Block(), 0), nil)
		if cv == nil {
			return c10ref{}, false
		}
		if cf != 0 {
			return c10fieldBytes(cv, cf-1, b, depth+1)
		}
		return c10beBytes(cv, b, depth+1)
	}
	switch x := v.(type) {
	case *ssa.UnOp:
		if x.Op != token.MUL {
			return c10ref{}, false
		}
		if cv := px.canon(x, px.at(x.Block(), 0)); cv != ssa.Value(x) {
			return c10fieldBytes(cv, k, b, depth+1)
		}
		loc, ok := c10locOf(x.X)
		st := c10deref(x.X.Type())
		if !ok || st == nil {
			return c10ref{}, false
		}
		floc := c10loc{root: loc.root, path: append(append([]c10step{}, loc.path...), c10step{true, int64(k), st.Underlying()}), typ: c10structOf(st).Field(k).Type()}
		cv, cf := px.canonAt(floc, x, x, px.at(x.Block(), 0), nil)
		if cv == nil {
			return c10ref{}, false
		}
		if cf != 0 {
			return c10fieldBytes(cv, cf-1, b, depth+1)
		}
		return c10beBytes(cv, b, depth+1)
	case *ssa.Parameter:
		return c10paramFieldBytes(x, k, b, depth)
	case *ssa.Call:
		return c10callFieldBytes(x, 0, k, b, depth)
	case *ssa.Extract:
		if call, ok := x.Tuple.(*ssa.Call); ok {
			return c10callFieldBytes(call, x.Index, k, b, depth)
		}
	}
	return c10ref{}, false
}

func c10callFieldBytes(call *ssa.Call, idx, k int, b *c10bind, depth int) (c10ref, bool) {
	g := call.Call.StaticCallee()
	if g == nil || call.Call.IsInvoke() || !isRepoFn(g) || len(g.Blocks) == 0 || g == call.Parent() {
		return c10ref{}, false
	}
	var out c10ref
	n, okAll := 0, true
	inner := &c10bind{call, b}
	eachInstr(g, func(i ssa.Instruction) {
		r, ok := i.(*ssa.Return)
		if !ok || i.Parent() != g || idx >= len(r.Results) || c10failureReturn(r) {
			return // (what a failure return hands out next to its error is not the decoded header)
		}
		ref, ok := c10fieldBytesAt(r.Results[idx], k, inner, depth+1, r)
		if !ok || (n > 0 && ref != out) {
			okAll = false
			return
		}
		out = ref
		n++
	})
	if !okAll || n == 0 {
		return c10ref{}, false
	}
	return out, true
}

// c10paramFieldBytes: field k of the struct parameter x (or of the struct the pointer parameter x points to when its
// function is entered): what the call the function was entered through passes there (b), or - read without such a
// context - what EVERY call site passes, when all callers are known and agree.
func c10paramFieldBytes(x *ssa.Parameter, k int, b *c10bind, depth int) (c10ref, bool) {
	f := x.Parent()
	idx := -1
	for j, p := range f.Params {
		if p == x {
			idx = j
		}
	}
	if idx < 0 {
		return c10ref{}, false
	}
	if b != nil && b.call.Call.StaticCallee() == f {
		if idx >= len(b.call.Call.Args) {
			return c10ref{}, false
		}
		return c10fieldBytesAt(b.call.Call.Args[idx], k, b.outer, depth+1, b.call)
	}
	if b != nil || !c10allCallersKnown(f) {
		return c10ref{}, false
	}
	sites := gSites[f]
	if len(sites) == 0 || len(sites) > 8 {
		return c10ref{}, false
	}
	var out c10ref
	for n, s := range sites {
		args := s.Common().Args
		if idx >= len(args) || s.Parent() == f {
			return c10ref{}, false
		}
		ref, ok := c10fieldBytesAt(args[idx], k, nil, depth+1, s)
		if !ok || (n > 0 && ref != out) {
			return c10ref{}, false
		}
		out = ref
	}
	return out, true
}

// c10fieldLoadParts: the integer load x of a struct field, read as bytes of the input: the one value of the function
// that the load observes (a store of the field, or the field of a struct value stored whole), or - behind a pointer
// parameter nothing has written since the function was entered - what the callers' memory holds there.
func c10fieldLoadParts(x *ssa.UnOp, fa *ssa.FieldAddr, b *c10bind, depth int) ([]c10shifted, bool) {
	px := c10proverForRoles
	if px == nil || depth > 10 {
		return nil, false
	}
	loc, ok := c10locOf(fa)
	if !ok {
		return nil, false
	}
	anchor := px.at(x.Block(), 0)
	if cv, cf := px.canonAt(loc, x, x, anchor, x); cv != nil {
		if cf == 0 {
			if cv == ssa.Value(x) {
				return nil, false
			}
			return c10parts(cv, b, depth+1)
		}
		if ref, ok := c10fieldBytes(cv, cf-1, b, depth+1); ok {
			return []c10shifted{{ref, 0}}, true
		}
		return nil, false
	}
	if dt, ok := px.defPointTerm(loc, x, x, anchor, false); ok {
		if ref, ok := c10fieldBytes(dt.v, dt.fld-1, b, depth+1); ok {
			return []c10shifted{{ref, 0}}, true
		}
	}
	return nil, false
}
