#!/bin/bash
# Entry point of every registered check: ./run.sh <property> <quick|thorough>
# Builds the checker if needed, then analyses /repo's current working tree.
set -u
cd "$(dirname "$0")"
export GOFLAGS=-mod=mod GOPROXY=off
unset GOWORK GOTOOLCHAIN GOSUMDB
BIN=bin/verifcheck
need=0
if [ ! -x "$BIN" ]; then need=1; else
  for f in checker/*.go checker/go.mod; do [ "$f" -nt "$BIN" ] && need=1; done
fi
if [ $need = 1 ]; then
  mkdir -p bin
  (cd checker && go build -o ../bin/verifcheck .) || { echo "CHECKER-CANNOT-RUN: build failed" >&2; exit 2; }
fi
exec "$BIN" "$@"
